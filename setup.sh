#!/bin/bash
# Offline set-up: warms the Go build cache for every engine and runs the oracle self-tests.
export GOFLAGS=-mod=mod GOPROXY=off GOSUMDB=off GOTOOLCHAIN=local
cd "$(dirname "$(readlink -f "$0")")" && exec python3 driver.py --setup
