#!/usr/bin/env python3
"""Regenerates /verif/MANIFEST.json from props.py (the single source of truth)."""
import json, os, sys
sys.path.insert(0, os.path.dirname(os.path.abspath(__file__)))
from props import PROPS
ALL = ["C%02d" % i for i in range(1, 21)]
BASE = json.load(open("/root/.vp/BASELINE.json"))["cmd"] if os.path.exists("/root/.vp/BASELINE.json") else ""
engines = {}
checks = []
for pid in ALL:
    if pid not in PROPS or PROPS[pid].get("unclaimed"):
        continue
    p = PROPS[pid]
    for u in p["units"]:
        engines.setdefault(u["engine"], set()).add(pid)
    checks.append({
        "property_id": pid,
        "quick_cmd": "./check %s quick" % pid,
        "thorough_cmd": "./check %s thorough" % pid,
        "evidence_file": "/verif/evidence/%s.json" % pid,
        "replay_cmd_template": "./check %s --replay {path}" % pid,
        "engine": ",".join(sorted({u["engine"] for u in p["units"]})),
        "level_claimed": {"category": "exploration", "text": p.get("level_text", "Generated-input search against an independent oracle: the property held on every generated case of the stated classes; it never proves absence."), "design_ref": p.get("design_ref", "DESIGN.md section 6")},
        "level_note": "; ".join(p.get("assumptions", [])) or "rapid v1.3.0, Go toolchain",
        "technique": p["technique"],
    })
na = []
for pid in ALL:
    if pid not in PROPS or PROPS[pid].get("unclaimed"):
        reason = (PROPS.get(pid) or {}).get("unclaimed") or "check not built yet (construction in progress, see DESIGN.md section 9)"
        na.append({"property_id": pid, "reason": reason})
doc = {
    "version": 1,
    "setup_cmd": "./setup.sh",
    "hooks": {
        "guard": "verif",
        "enable": "go test -c -tags verif in a scratch copy of /repo's working tree into which /verif/shim (verifapi package + internal/sbi/zz_verif_export.go, both '//go:build verif', add-only) is copied; nothing is committed to /repo for hooks",
        "baseline_off_cmd": "cd /repo && go test -vet=off -count=1 ./...",
        "source_commits": [],
        "add_only": True,
    },
    "engines": [{"name": k, "path": "/verif/harness/" + k, "serves_properties": sorted(v), "kind_free_text": "Go test package driven by pgregory.net/rapid (and native fuzzing in thorough tiers)"} for k, v in sorted(engines.items())],
    "checks": checks,
    "notes": "All checks are property-based tests / fuzzers (pgregory.net/rapid v1.3.0, go test -fuzz) with independent oracles; see DESIGN.md. Known findings: KNOWN_FINDINGS.txt.",
    "not_applicable": na,
}
json.dump(doc, open(os.path.join(os.path.dirname(os.path.abspath(__file__)), "MANIFEST.json"), "w"), indent=1)
print("MANIFEST.json: %d checks, %d not claimed" % (len(checks), len(na)))
