// Engine config: C20 - configurations accepted by validation start without
// crashing (each in a fresh subprocess); invalid ones are rejected.
package config

import (
	"bytes"
	"context"
	"fmt"
	"os"
	"os/exec"
	"path/filepath"
	"strconv"
	"strings"
	"sync"
	"sync/atomic"
	"testing"
	"time"

	"gopkg.in/yaml.v2"
	"pgregory.net/rapid"

	"github.com/free5gc/chf/pkg/abmf"
	"github.com/free5gc/chf/pkg/factory"
	"github.com/free5gc/chf/pkg/rf"
	"github.com/free5gc/chf/pkg/service"
	"github.com/free5gc/chf/verifapi"
	"github.com/free5gc/openapi/models"
	"verifharness/fakemongo"
	"verifharness/h"
	"verifharness/stackenv"
)

type Edit struct {
	Path string `json:"path"`
	Op   string `json:"op"` // drop | null | set
	Val  string `json:"val,omitempty"`
}

type C20Case struct {
	Edits  []Edit `json:"edits"`
	KeyLog bool   `json:"keyLog,omitempty"` // the process is started with a TLS key log file (chf -l <file>)
	// KeyLogBad: ... and that file cannot be created (its directory does not exist): an error, not a crash
	KeyLogBad bool `json:"keyLogBad,omitempty"`
	// PadKiB: the file carries that many KiB of comment lines between the first and the second entry of the service
	// list, which is written last (after every mandatory section): a large file whose list goes on far into it
	PadKiB int `json:"padKiB,omitempty"`
}

var (
	fm      *fakemongo.Server
	pemF    string
	keyF    string
	workDir string
	seq     atomic.Int64
)

func TestMain(m *testing.M) {
	if f := os.Getenv("VERIF_C20_CHILD"); f != "" {
		os.Exit(child(f))
	}
	workDir = os.Getenv("VERIF_WORK")
	if workDir == "" {
		workDir = os.TempDir()
	}
	var err error
	fm, err = fakemongo.Start()
	if err != nil {
		fmt.Fprintln(os.Stderr, "HARNESS:", err)
		os.Exit(2)
	}
	pemF, keyF = stackenv.GenCert(workDir)
	verifapi.Quiet()
	os.Exit(m.Run())
}

func baseline() map[string]interface{} {
	tls := func() map[string]interface{} { return map[string]interface{}{"pem": pemF, "key": keyF} }
	return map[string]interface{}{
		"info": map[string]interface{}{"version": "1.0.3", "description": "CHF initial local configuration"},
		"configuration": map[string]interface{}{
			"chfName": "CHF",
			"sbi":     map[string]interface{}{"scheme": "http", "registerIPv4": "127.0.0.1", "bindingIPv4": "127.0.0.1", "port": stackenv.FreePort(), "tls": tls()},
			"nrfUri":  "http://127.0.0.10:8000", "nrfCertPem": pemF,
			"serviceNameList": []interface{}{"nchf-convergedcharging"},
			"mongodb":         map[string]interface{}{"name": "free5gc", "url": fm.URL()},
			"volumeLimit":     50000, "volumeLimitPDU": 10000, "reserveQuotaRatio": 5, "volumeThresholdRate": 0.8, "quotaValidityTime": 10000,
			"rfDiameter":   map[string]interface{}{"protocol": "tcp", "hostIPv4": "127.0.0.1", "port": stackenv.FreePort(), "tls": tls()},
			"abmfDiameter": map[string]interface{}{"protocol": "tcp", "hostIPv4": "127.0.0.1", "port": stackenv.FreePort(), "tls": tls()},
			"cgf": map[string]interface{}{"enable": false, "hostIPv4": "127.0.0.1", "port": stackenv.FreePort(), "listenPort": stackenv.FreePort(),
				"passiveTransferPortRange": map[string]interface{}{"start": 2123, "end": 2130}, "tls": tls(), "cdrFilePath": workDir},
		},
		"logger": map[string]interface{}{"enable": true, "level": "error", "reportCaller": false},
	}
}

var sections = []string{"info", "info.version", "logger", "logger.level", "configuration", "configuration.chfName", "configuration.sbi", "configuration.sbi.scheme",
	"configuration.sbi.tls", "configuration.sbi.tls.pem", "configuration.sbi.tls.key", "configuration.sbi.port", "configuration.sbi.bindingIPv4", "configuration.sbi.registerIPv4",
	"configuration.rfDiameter", "configuration.rfDiameter.tls", "configuration.rfDiameter.tls.pem", "configuration.rfDiameter.tls.key", "configuration.rfDiameter.protocol", "configuration.rfDiameter.port",
	"configuration.abmfDiameter", "configuration.abmfDiameter.tls", "configuration.abmfDiameter.tls.pem", "configuration.abmfDiameter.tls.key", "configuration.abmfDiameter.hostIPv4",
	"configuration.cgf", "configuration.cgf.tls", "configuration.cgf.enable", "configuration.cgf.passiveTransferPortRange", "configuration.cgf.cdrFilePath",
	"configuration.mongodb", "configuration.mongodb.url", "configuration.mongodb.name", "configuration.nrfUri", "configuration.nrfCertPem", "configuration.serviceNameList",
	"configuration.volumeThresholdRate", "configuration.quotaValidityTime"}

func genC20(t *rapid.T) C20Case {
	var c C20Case
	c.KeyLog = rapid.IntRange(0, 2).Draw(t, "keyLog") == 0
	c.KeyLogBad = c.KeyLog && rapid.IntRange(0, 2).Draw(t, "keyLogBad") == 0
	n := rapid.SampledFrom([]int{1, 1, 1, 2, 2, 3, 5}).Draw(t, "nEdits")
	for i := 0; i < n; i++ {
		switch rapid.IntRange(0, 11).Draw(t, "editKind") {
		case 10, 11:
			// the transport of a Diameter section, alone or together with the removal of that section's tls block
			sec := rapid.SampledFrom([]string{"configuration.rfDiameter", "configuration.abmfDiameter"}).Draw(t, "diamSection")
			c.Edits = append(c.Edits, Edit{Path: sec + ".protocol", Op: "set", Val: rapid.SampledFrom([]string{"tcp", "tcp4", "tcp6", "sctp", "udp", "", "TCP", "unix"}).Draw(t, "protocol")})
			if rapid.Bool().Draw(t, "alsoDropTls") {
				c.Edits = append(c.Edits, Edit{Path: sec + ".tls", Op: rapid.SampledFrom([]string{"drop", "null"}).Draw(t, "tlsOp")})
			}
		case 0, 1, 2, 3:
			c.Edits = append(c.Edits, Edit{Path: rapid.SampledFrom(sections).Draw(t, "path"), Op: rapid.SampledFrom([]string{"drop", "drop", "null", "empty"}).Draw(t, "op")})
		case 4:
			c.Edits = append(c.Edits, Edit{Path: "configuration.sbi.scheme", Op: "set", Val: rapid.SampledFrom([]string{"http", "https", "", "ftp", "HTTP", "h2c", "HTTPS", "Https", "https ", "httpss"}).Draw(t, "scheme")})
		case 5:
			p := rapid.SampledFrom([]string{"configuration.sbi.port", "configuration.rfDiameter.port", "configuration.abmfDiameter.port", "configuration.cgf.port", "configuration.cgf.listenPort"}).Draw(t, "portPath")
			c.Edits = append(c.Edits, Edit{Path: p, Op: "setint", Val: rapid.SampledFrom([]string{"0", "1", "65535", "65536", "-1"}).Draw(t, "port")})
		case 6:
			l := rapid.SampledFrom([]string{"nchf-convergedcharging", "nchf-offlineonlycharging", "nchf-spendinglimitcontrol", "nchf-convergedcharging,nchf-convergedcharging",
				"nchf-convergedcharging,nchf-spendinglimitcontrol,nchf-offlineonlycharging", "nchf-convergedcharging,nchf-offlineonlycharging,nchf-convergedcharging", "nchf-offlineonlycharging,nchf-spendinglimitcontrol,nchf-convergedcharging,nchf-spendinglimitcontrol", "nchf-unknown", "nchf-convergedcharging,bogus", "", "nchf-spendinglimitcontrol,nchf-spendinglimitcontrol,nchf-offlineonlycharging", "NCHF-CONVERGEDCHARGING",
				"nchf-convergedcharging*256", "nchf-convergedcharging*257", "nchf-offlineonlycharging,nchf-convergedcharging*512", "nchf-spendinglimitcontrol*65536", "nchf-convergedcharging*255,nchf-offlineonlycharging"}).Draw(t, "services")
			if rapid.IntRange(0, 3).Draw(t, "padded") == 0 {
				c.PadKiB = rapid.SampledFrom([]int{1, 1000, 1024, 1100, 2048, 5000}).Draw(t, "padKiB")
			}
			c.Edits = append(c.Edits, Edit{Path: "configuration.serviceNameList", Op: "list", Val: l})
		case 7:
			c.Edits = append(c.Edits, Edit{Path: "configuration.cgf.enable", Op: "setbool", Val: rapid.SampledFrom([]string{"true", "false"}).Draw(t, "cgfEnable")})
		case 8:
			p := rapid.SampledFrom([]string{"configuration.sbi.bindingIPv4", "configuration.rfDiameter.hostIPv4", "configuration.abmfDiameter.hostIPv4", "configuration.mongodb.url", "configuration.nrfUri"}).Draw(t, "hostPath")
			c.Edits = append(c.Edits, Edit{Path: p, Op: "set", Val: rapid.SampledFrom([]string{"127.0.0.1", "localhost", "256.1.1.1", "not a host", "mongodb://127.0.0.1:1", "http://nrf"}).Draw(t, "host")})
		default:
			c.Edits = append(c.Edits, Edit{Path: "configuration.sbi.scheme", Op: "set", Val: rapid.SampledFrom([]string{"https", "https", "HTTPS", "Https"}).Draw(t, "httpsSpelling")}, Edit{Path: "configuration.sbi.tls", Op: "drop"})
		}
	}
	return c
}

func apply(m map[string]interface{}, e Edit) {
	parts := strings.Split(e.Path, ".")
	cur := m
	for _, p := range parts[:len(parts)-1] {
		next, ok := cur[p].(map[string]interface{})
		if !ok {
			return
		}
		cur = next
	}
	k := parts[len(parts)-1]
	switch e.Op {
	case "drop":
		delete(cur, k)
	case "null":
		if _, ok := cur[k]; ok {
			cur[k] = nil
		}
	case "empty":
		switch cur[k].(type) {
		case map[string]interface{}:
			cur[k] = map[string]interface{}{}
		case []interface{}:
			cur[k] = []interface{}{}
		case string:
			cur[k] = ""
		}
	case "set":
		cur[k] = e.Val
	case "setint":
		n, _ := strconv.Atoi(e.Val)
		cur[k] = n
	case "setbool":
		cur[k] = e.Val == "true"
	case "list":
		var l []interface{}
		if e.Val != "" {
			for _, s := range strings.Split(e.Val, ",") {
				// name*N: the name N times
				n := 1
				if i := strings.LastIndex(s, "*"); i > 0 {
					if k, err := strconv.Atoi(s[i+1:]); err == nil {
						s, n = s[:i], k
					}
				}
				for ; n > 0; n-- {
					l = append(l, s)
				}
			}
		}
		cur[k] = l
	}
}

func get(m map[string]interface{}, path string) (interface{}, bool) {
	var cur interface{} = m
	for _, p := range strings.Split(path, ".") {
		mm, ok := cur.(map[string]interface{})
		if !ok {
			return nil, false
		}
		cur, ok = mm[p]
		if !ok {
			return nil, false
		}
	}
	return cur, true
}

var required = []string{"info", "configuration", "logger", "configuration.sbi", "configuration.mongodb", "configuration.rfDiameter", "configuration.abmfDiameter", "configuration.cgf", "configuration.serviceNameList", "configuration.nrfUri", "configuration.chfName"}

// mustReject: the three classes the property names.
func mustReject(m map[string]interface{}) (string, bool) {
	for _, r := range required {
		v, ok := get(m, r)
		if !ok || v == nil {
			return "missing:" + r, true
		}
	}
	if l, ok := get(m, "configuration.serviceNameList"); ok {
		if ll, ok := l.([]interface{}); ok {
			for _, s := range ll {
				switch s {
				case "nchf-convergedcharging", "nchf-offlineonlycharging", "nchf-spendinglimitcontrol":
				default:
					return "unknown-service", true
				}
			}
		}
	}
	if s, ok := get(m, "configuration.sbi.scheme"); ok {
		// "other than http/https": a different spelling of the same two schemes (HTTP, Https) is not demanded to be
		// rejected - if validation accepts it, the configuration has to start like any other accepted one
		if ss, ok := s.(string); ok && strings.ToLower(ss) != "http" && strings.ToLower(ss) != "https" {
			return "bad-scheme", true
		}
	}
	return "", false
}

func judgeC20(c C20Case) *h.Verdict {
	v := &h.Verdict{}
	m := baseline()
	for _, e := range c.Edits {
		apply(m, e)
	}
	y, err := yaml.Marshal(m)
	if err != nil {
		return v.Failf("HARNESS-yaml", "%v", err)
	}
	if l, ok := get(m, "configuration.serviceNameList"); ok {
		if ll, ok := l.([]interface{}); ok && len(ll) >= 256 {
			v.Label("service-list>=256-entries")
		}
	}
	if c.PadKiB > 0 {
		padded, ok := paddedYaml(m, c.PadKiB)
		if !ok {
			v.Skipped = true
			return v
		}
		y = padded
		if c.PadKiB >= 1024 {
			v.Label("file>1MiB-list-continues-after-the-padding")
		}
	}
	file := filepath.Join(workDir, fmt.Sprintf("chfcfg-%d-%d.yaml", os.Getpid(), seq.Add(1)))
	_ = os.WriteFile(file, y, 0o600)
	defer os.Remove(file)
	var cfg *factory.Config
	var rerr error
	if p, val, st := h.Safely(func() { cfg, rerr = factory.ReadConfig(file) }); p {
		return v.Failf("readconfig-panic", "ReadConfig panicked: %v\n%s\n%s", val, st, short(y))
	}
	cls, must := mustReject(m)
	if must {
		v.NT("must-reject:" + strings.Split(cls, ":")[0])
		if rerr == nil {
			return v.Failf("accepted-invalid/"+cls, "validation accepted a configuration that must be rejected (%s):\n%s", cls, short(y))
		}
		return v
	}
	if rerr != nil {
		v.Label("rejected-other")
		return v
	}
	_ = cfg
	v.NT("accepted")
	for _, e := range c.Edits {
		if e.Op == "drop" || e.Op == "null" || e.Op == "empty" {
			v.Label("accepted-without:" + e.Path)
		}
	}
	// start it in a fresh process
	ctx, cancel := context.WithTimeout(context.Background(), 30*time.Second)
	defer cancel()
	cmd := exec.CommandContext(ctx, os.Args[0], "-test.run", "^$")
	cmd.Env = append(os.Environ(), "VERIF_C20_CHILD="+file)
	if c.KeyLog {
		cmd.Env = append(cmd.Env, "VERIF_C20_KEYLOG=1")
		v.Label("started-with-tls-key-log")
		if c.KeyLogBad {
			cmd.Env = append(cmd.Env, "VERIF_C20_KEYLOG_BAD=1")
			v.Label("tls-key-log-cannot-be-created")
		}
	}
	var out bytes.Buffer
	cmd.Stdout, cmd.Stderr = &out, &out
	err = cmd.Run()
	if ctx.Err() != nil {
		v.Label("child-timeout(no crash observed)")
		return v
	}
	o := out.String()
	if strings.Contains(o, "CHILD: config rejected") {
		// the very file this process's ReadConfig accepted is rejected by a fresh process: what validation says
		// depends on what the process validated before
		return v.Failf("validation-depends-on-history", "a configuration accepted by ReadConfig in a process that had validated other configurations before is rejected by a fresh process:\n%s\n--- output of the fresh process ---\n%.1500s", short(y), tail(o, 1500))
	}
	crashed := strings.Contains(o, "panic:") || strings.Contains(o, "nil pointer") || strings.Contains(o, "fatal error:") || strings.Contains(o, "SIGSEGV")
	if err != nil || crashed {
		where := "start"
		for _, w := range []string{"context.Init", "NewApp", "rf.OpenServer", "abmf.OpenServer", "cgf.OpenServer", "https-getters", "sbi-listener", "charging-request"} {
			if strings.Contains(o, "STAGE "+w) {
				where = w
			}
		}
		frame := h.PanicFrame(o)
		return v.Failf("crash/"+where+"/"+frame, "a configuration accepted by validation crashed the CHF at stage %s (exit: %v):\n%s\n--- output ---\n%.3000s", where, err, short(y), tail(o, 3000))
	}
	return v
}

// paddedYaml writes the configuration with the service list last and padKiB KiB of comment lines between its first
// and second entry (the list must be a list of at least two strings).
func paddedYaml(m map[string]interface{}, padKiB int) ([]byte, bool) {
	conf, ok := m["configuration"].(map[string]interface{})
	if !ok {
		return nil, false
	}
	l, ok := conf["serviceNameList"].([]interface{})
	if !ok || len(l) < 2 {
		return nil, false
	}
	for _, e := range l {
		if _, ok := e.(string); !ok {
			return nil, false
		}
	}
	rest := map[string]interface{}{}
	for k, v := range m {
		if k != "configuration" {
			rest[k] = v
		}
	}
	c2 := map[string]interface{}{}
	for k, v := range conf {
		if k != "serviceNameList" {
			c2[k] = v
		}
	}
	a, err1 := yaml.Marshal(rest)
	b, err2 := yaml.Marshal(map[string]interface{}{"configuration": c2})
	if err1 != nil || err2 != nil {
		return nil, false
	}
	// indentation of the members of configuration, as the library writes it
	indent := ""
	for _, line := range strings.Split(string(b), "\n")[1:] {
		t := strings.TrimLeft(line, " ")
		if t != "" && !strings.HasPrefix(t, "-") {
			indent = line[:len(line)-len(t)]
			break
		}
	}
	if indent == "" {
		return nil, false
	}
	var out bytes.Buffer
	out.Write(a)
	out.Write(b)
	out.WriteString(indent + "serviceNameList:\n")
	fmt.Fprintf(&out, "%s- %q\n", indent, l[0])
	pad := indent + "# " + strings.Repeat("padding ", 15) + "\n"
	for n := 0; n < padKiB*1024; n += len(pad) {
		out.WriteString(pad)
	}
	for _, e := range l[1:] {
		fmt.Fprintf(&out, "%s- %q\n", indent, e)
	}
	return out.Bytes(), true
}

// short cuts a long configuration text for a message (the case reproduces it in full).
func short(y []byte) string {
	if len(y) <= 4000 {
		return string(y)
	}
	return string(y[:2500]) + fmt.Sprintf("\n... (%d octets) ...\n", len(y)-3500) + string(y[len(y)-1000:])
}

func tail(s string, n int) string {
	if len(s) > n {
		return s[len(s)-n:]
	}
	return s
}

// child: what service.NewApp / Start do, minus NRF registration.
func child(file string) int {
	verifapi.Quiet()
	cfg, err := factory.ReadConfig(file)
	if err != nil {
		fmt.Println("CHILD: config rejected:", err)
		return 0
	}
	factory.ChfConfig = cfg
	ctx, cancel := context.WithCancel(context.Background())
	defer cancel()
	var wg sync.WaitGroup
	fmt.Println("STAGE NewApp")
	app, err := service.NewApp(ctx, cfg, "")
	if err != nil {
		fmt.Println("CHILD: NewApp error (not a crash):", err)
		return 0
	}
	if cfg.Configuration.Cgf.Enable {
		fmt.Println("STAGE cgf.OpenServer")
		verifapi.OpenCgf(ctx, &wg)
	}
	fmt.Println("STAGE rf.OpenServer")
	wg.Add(1)
	rf.OpenServer(ctx, &wg)
	fmt.Println("STAGE abmf.OpenServer")
	wg.Add(1)
	abmf.OpenServer(ctx, &wg)
	if cfg.GetSbiScheme() == "https" {
		fmt.Println("STAGE https-getters")
		_ = cfg.GetCertPemPath()
		_ = cfg.GetCertKeyPath()
	}
	fmt.Println("STAGE sbi-listener")
	keyLog := ""
	if os.Getenv("VERIF_C20_KEYLOG") != "" {
		keyLog = file + ".keylog" // the operator asked for a TLS key log (chf -l <file>)
		if os.Getenv("VERIF_C20_KEYLOG_BAD") != "" {
			keyLog = file + ".no-such-directory/keys.log"
		}
		defer os.Remove(keyLog)
	}
	if err := verifapi.RunSBIServerKeyLog(keyLog); err != nil {
		fmt.Println("CHILD: SBI server error (not a crash):", err)
	}
	time.Sleep(400 * time.Millisecond) // the listeners are started in goroutines
	fmt.Println("STAGE charging-request")
	now := time.Now()
	supi := "imsi-20893" + fmt.Sprintf("%09d", os.Getpid()%1000000000)
	nf := &models.ChfConvergedChargingNfIdentification{NFName: "smf", NodeFunctionality: "SMF"}
	p := app.Processor()
	_, loc, pd := p.ChargingDataCreate(models.ChfConvergedChargingChargingDataRequest{SubscriberIdentifier: supi, ChargingId: 1, NfConsumerIdentification: nf, InvocationTimeStamp: &now, InvocationSequenceNumber: 1})
	if pd == nil {
		ref := loc[strings.LastIndex(loc, "/")+1:]
		p.ChargingDataUpdate(models.ChfConvergedChargingChargingDataRequest{SubscriberIdentifier: supi, ChargingId: 1, NfConsumerIdentification: nf, InvocationTimeStamp: &now, InvocationSequenceNumber: 2,
			MultipleUnitUsage: []models.ChfConvergedChargingMultipleUnitUsage{{RatingGroup: 1, RequestedUnit: &models.RequestedUnit{TotalVolume: 1},
				UsedUnitContainer: []models.ChfConvergedChargingUsedUnitContainer{{QuotaManagementIndicator: models.QuotaManagementIndicator_ONLINE_CHARGING, TotalVolume: 0, LocalSequenceNumber: 1}}}}}, ref)
		_ = os.Remove("/tmp/" + supi + ".cdr")
	}
	fmt.Println("STAGE done")
	return 0
}

func TestC20Configs(t *testing.T) { h.Run(t, "C20", "configs", genC20, judgeC20) }

// Every single-section edit, systematically: each section or field deleted, nulled or emptied on its own.
func TestC20SingleEdits(t *testing.T) {
	r := h.NewRecorder("C20", "single")
	shard, _ := strconv.Atoi(os.Getenv("VERIF_SHARD"))
	nsh, _ := strconv.Atoi(os.Getenv("VERIF_NSHARDS"))
	if nsh < 1 {
		nsh = 1
	}
	h.Enum(t, r, func(yield func(C20Case) bool) {
		i := 0
		for _, p := range sections {
			for _, op := range []string{"drop", "null", "empty"} {
				i++
				if i%nsh != shard {
					continue
				}
				if !yield(C20Case{Edits: []Edit{{Path: p, Op: op}}}) {
					return
				}
			}
		}
		// every transport of a Diameter section together with the removal of that section's tls block
		k := 0
		for _, sec := range []string{"configuration.rfDiameter", "configuration.abmfDiameter"} {
			for _, proto := range []string{"tcp", "tcp4", "tcp6", "sctp", "udp", "", "TCP", "unix"} {
				for _, op := range []string{"drop", "null"} {
					k++
					if k%nsh != shard {
						continue
					}
					if !yield(C20Case{Edits: []Edit{{Path: sec + ".protocol", Op: "set", Val: proto}, {Path: sec + ".tls", Op: op}}}) {
						return
					}
				}
			}
		}
		// the sections a key log could touch, started with a key log file
		for j, p := range []string{"configuration.sbi.tls", "configuration.sbi.tls.pem", "configuration.sbi.tls.key", "configuration.nrfCertPem"} {
			if j%nsh == shard {
				if !yield(C20Case{KeyLog: true, Edits: []Edit{{Path: p, Op: "drop"}}}) {
					return
				}
				if !yield(C20Case{KeyLog: true, KeyLogBad: true, Edits: []Edit{{Path: p, Op: "drop"}}}) {
					return
				}
				if !yield(C20Case{KeyLog: true, KeyLogBad: true, Edits: []Edit{{Path: "configuration.sbi.scheme", Op: "set", Val: []string{"http", "https"}[j%2]}}}) {
					return
				}
			}
		}
		lists := []string{"nchf-convergedcharging,nchf-offlineonlycharging,nchf-convergedcharging", "nchf-convergedcharging,nchf-convergedcharging", "nchf-spendinglimitcontrol,nchf-offlineonlycharging,nchf-convergedcharging", "nchf-offlineonlycharging"}
		// an unknown name at every position of lists of one to three entries
		known := []string{"nchf-convergedcharging", "nchf-offlineonlycharging", "nchf-spendinglimitcontrol"}
		for _, bogus := range []string{"nchf-bogus", "NCHF-CONVERGEDCHARGING", "nchf-convergedcharging "} {
			lists = append(lists, bogus, bogus+","+known[0], known[0]+","+bogus, known[1]+","+known[2]+","+bogus, known[1]+","+bogus+","+known[2], bogus+","+known[2]+","+known[0])
		}
		for j, l := range lists {
			if j%nsh == shard {
				if !yield(C20Case{Edits: []Edit{{Path: "configuration.serviceNameList", Op: "list", Val: l}}}) {
					return
				}
			}
		}
		// a known name repeated - twice, and as often as the widths of small counters
		j := 0
		for _, name := range known {
			for _, n := range []int{2, 3, 255, 256, 257, 511, 512, 513, 65535, 65536, 65537} {
				for _, l := range []string{fmt.Sprintf("%s*%d", name, n), fmt.Sprintf("%s,%s*%d", known[(j+1)%3], name, n)} {
					j++
					if j%nsh == shard {
						if !yield(C20Case{Edits: []Edit{{Path: "configuration.serviceNameList", Op: "list", Val: l}}}) {
							return
						}
					}
				}
			}
		}
		// a large file: the list's first entry, then 1 KiB to 9 MiB of comment lines, then the rest of the list -
		// valid, with an unknown name, with the first name again
		for _, kib := range []int{1, 1000, 1023, 1024, 1025, 2048, 4096, 9000} {
			for _, l := range []string{"nchf-convergedcharging,nchf-offlineonlycharging", "nchf-convergedcharging,nchf-bogus", "nchf-convergedcharging,nchf-offlineonlycharging,nchf-bogus", "nchf-convergedcharging,nchf-convergedcharging", "nchf-spendinglimitcontrol,nchf-offlineonlycharging,nchf-spendinglimitcontrol"} {
				j++
				if j%nsh == shard {
					if !yield(C20Case{PadKiB: kib, Edits: []Edit{{Path: "configuration.serviceNameList", Op: "list", Val: l}}}) {
						return
					}
				}
			}
		}
		// every spelling of the scheme, with and without the tls block
		for j, sc := range []string{"http", "https", "HTTP", "Http", "HTTPS", "Https", "hTTps", "", "ftp", "h2c", "https ", "httpss", "ws"} {
			for k, dropTLS := range []bool{false, true} {
				if (2*j+k)%nsh != shard {
					continue
				}
				ed := []Edit{{Path: "configuration.sbi.scheme", Op: "set", Val: sc}}
				if dropTLS {
					ed = append(ed, Edit{Path: "configuration.sbi.tls", Op: "drop"})
				}
				if !yield(C20Case{Edits: ed}) {
					return
				}
			}
		}
	}, judgeC20, true)
}
