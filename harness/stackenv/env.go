// Package stackenv boots the whole CHF inside the test process: fake MongoDB,
// real rating and account-balance Diameter servers, the CHF context and
// processor, optionally the real gin router, and a notification sink.
package stackenv

import (
	"context"
	"crypto/ecdsa"
	"crypto/elliptic"
	"crypto/rand"
	"crypto/tls"
	"crypto/x509"
	"crypto/x509/pkix"
	"encoding/json"
	"encoding/pem"
	"fmt"
	"io"
	"math/big"
	"net"
	"net/http"
	"net/http/httptest"
	"os"
	"path/filepath"
	"strconv"
	"strings"
	"sync"
	"sync/atomic"
	"syscall"
	"time"

	"go.mongodb.org/mongo-driver/bson"
	"golang.org/x/net/http2"
	"golang.org/x/net/http2/h2c"

	"github.com/free5gc/chf/pkg/abmf"
	"github.com/free5gc/chf/pkg/factory"
	"github.com/free5gc/chf/pkg/rf"
	"github.com/free5gc/chf/verifapi"
	"github.com/free5gc/openapi/models"
	"verifharness/fakemongo"
)

const Coll = "free5gc.policyData.ues.chargingData"

type Notification struct {
	Path string
	Body models.ChargingNotifyRequest
	Raw  string
}

type Env struct {
	FM       *fakemongo.Server
	Cfg      *factory.Config
	RfPort   int
	AbmfPort int
	PemFile  string
	KeyFile  string
	Sink     *httptest.Server
	mu       sync.Mutex
	notes    []Notification
	supiSeq  atomic.Int64
	created  map[string]bool
}

var portCounter atomic.Int64

// FreePort returns a port that is free right now, taken from below the
// kernel's ephemeral range (the product's own leaked client connections would
// otherwise grab a kernel-chosen port between probing and binding).
func FreePort() int {
	for i := 0; i < 5000; i++ {
		n := portCounter.Add(1)
		p := 10000 + int((int64(os.Getpid())*7919+n*104729+time.Now().UnixNano()/1000)%20000)
		l, err := net.Listen("tcp", "127.0.0.1:"+strconv.Itoa(p))
		if err != nil {
			continue
		}
		l.Close()
		return p
	}
	panic("no free port")
}

func GenCert(dir string) (string, string) {
	key, _ := ecdsa.GenerateKey(elliptic.P256(), rand.Reader)
	tmpl := &x509.Certificate{SerialNumber: big.NewInt(1), Subject: pkix.Name{CommonName: "verif"},
		NotBefore: time.Now().Add(-time.Hour), NotAfter: time.Now().Add(240 * time.Hour),
		IPAddresses: []net.IP{net.ParseIP("127.0.0.1")}, KeyUsage: x509.KeyUsageDigitalSignature,
		ExtKeyUsage: []x509.ExtKeyUsage{x509.ExtKeyUsageServerAuth, x509.ExtKeyUsageClientAuth}}
	der, err := x509.CreateCertificate(rand.Reader, tmpl, tmpl, &key.PublicKey, key)
	if err != nil {
		panic(err)
	}
	kb, _ := x509.MarshalECPrivateKey(key)
	p := filepath.Join(dir, fmt.Sprintf("verif-%d.pem", os.Getpid()))
	k := filepath.Join(dir, fmt.Sprintf("verif-%d.key", os.Getpid()))
	_ = os.WriteFile(p, pem.EncodeToMemory(&pem.Block{Type: "CERTIFICATE", Bytes: der}), 0o600)
	_ = os.WriteFile(k, pem.EncodeToMemory(&pem.Block{Type: "EC PRIVATE KEY", Bytes: kb}), 0o600)
	return p, k
}

func workDir() string {
	if d := os.Getenv("VERIF_WORK"); d != "" {
		return d
	}
	return os.TempDir()
}

// BaseConfig is a valid configuration with the given peers.
func BaseConfig(mongoURL string, rfPort, abmfPort int, pemF, keyF string) *factory.Config {
	tlsb := &factory.Tls{Pem: pemF, Key: keyF}
	return &factory.Config{
		Info: &factory.Info{Version: "1.0.3", Description: "verif"},
		Configuration: &factory.Configuration{
			ChfName: "CHF", Sbi: &factory.Sbi{Scheme: "http", RegisterIPv4: "127.0.0.1", BindingIPv4: "127.0.0.1", Port: 8000},
			ServiceNameList: []string{"nchf-convergedcharging"}, NrfUri: "http://127.0.0.10:8000",
			Mongodb:             &factory.Mongodb{Name: "free5gc", Url: mongoURL},
			VolumeThresholdRate: 0.8,
			RfDiameter:          &factory.Diameter{Protocol: "tcp", HostIPv4: "127.0.0.1", Port: rfPort, Tls: tlsb},
			AbmfDiameter:        &factory.Diameter{Protocol: "tcp", HostIPv4: "127.0.0.1", Port: abmfPort, Tls: tlsb},
			Cgf:                 &factory.Cgf{HostIPv4: "127.0.0.1", Port: 2121, ListenPort: 2122},
		},
		Logger: &factory.Logger{Level: "error"},
	}
}

// portLock takes an exclusive advisory lock shared by all harness processes.
func portLock() func() {
	_ = os.MkdirAll("/var/tmp/chf-verif", 0o777)
	f, err := os.OpenFile("/var/tmp/chf-verif/ports.lock", os.O_CREATE|os.O_RDWR, 0o666)
	if err != nil {
		return func() {}
	}
	if err := syscall.Flock(int(f.Fd()), syscall.LOCK_EX); err != nil {
		f.Close()
		return func() {}
	}
	return func() {
		_ = syscall.Flock(int(f.Fd()), syscall.LOCK_UN)
		f.Close()
	}
}

func waitTLS(port int) error {
	deadline := time.Now().Add(10 * time.Second)
	for time.Now().Before(deadline) {
		c, err := tls.DialWithDialer(&net.Dialer{Timeout: time.Second}, "tcp", "127.0.0.1:"+strconv.Itoa(port), &tls.Config{InsecureSkipVerify: true})
		if err == nil {
			c.Close()
			return nil
		}
		time.Sleep(30 * time.Millisecond)
	}
	return fmt.Errorf("port %d did not come up", port)
}

// Options of Start.
type Options struct {
	OwnPeers bool // do not start the real rating/ABMF servers (the harness supplies peers on RfPort/AbmfPort)
	RfPort   int
	AbmfPort int
}

// Start boots the stack (once per process).
func Start(opt Options) (*Env, error) {
	verifapi.Quiet()
	fm, err := fakemongo.Start()
	if err != nil {
		return nil, err
	}
	e := &Env{FM: fm, created: map[string]bool{}}
	e.PemFile, e.KeyFile = GenCert(workDir())
	// Picking a free port and having the product's server bind it is not
	// atomic: serialise it across all harness processes with a file lock.
	unlock := portLock()
	defer unlock()
	e.RfPort, e.AbmfPort = opt.RfPort, opt.AbmfPort
	if e.RfPort == 0 {
		e.RfPort = FreePort()
	}
	if e.AbmfPort == 0 {
		e.AbmfPort = FreePort()
	}
	e.Cfg = BaseConfig(fm.URL(), e.RfPort, e.AbmfPort, e.PemFile, e.KeyFile)
	verifapi.Init(e.Cfg)
	if !opt.OwnPeers {
		var wg sync.WaitGroup
		wg.Add(2)
		ctx := context.Background()
		rf.OpenServer(ctx, &wg)
		abmf.OpenServer(ctx, &wg)
		if err := waitTLS(e.RfPort); err != nil {
			return nil, err
		}
		if err := waitTLS(e.AbmfPort); err != nil {
			return nil, err
		}
	}
	// the product's callback client speaks HTTP/2 with prior knowledge (h2c) on http:// URIs
	e.Sink = httptest.NewServer(h2c.NewHandler(http.HandlerFunc(func(w http.ResponseWriter, r *http.Request) {
		b, _ := io.ReadAll(r.Body)
		var n Notification
		n.Path, n.Raw = r.URL.Path, string(b)
		_ = json.Unmarshal(b, &n.Body)
		e.mu.Lock()
		e.notes = append(e.notes, n)
		e.mu.Unlock()
		// a consumer whose notify URI starts with /notify-<status>/ answers the notification with that status
		status := http.StatusNoContent
		if strings.HasPrefix(r.URL.Path, "/notify-") && len(r.URL.Path) >= 11 {
			if c, err := strconv.Atoi(r.URL.Path[8:11]); err == nil && c >= 200 && c <= 599 {
				status = c
			}
		}
		w.WriteHeader(status)
	}), &http2.Server{}))
	return e, nil
}

// Notifications returns and clears what the sink received.
func (e *Env) Notifications() []Notification {
	e.mu.Lock()
	defer e.mu.Unlock()
	out := e.notes
	e.notes = nil
	return out
}

// NewSupi returns a subscriber identity unique to this process and call.
func (e *Env) NewSupi() string {
	n := e.supiSeq.Add(1)
	// every other identity starts with the digit 0 (an MCC such as 001): a SUPI is a digit string, not a number
	lead := 9
	if n%2 == 0 {
		lead = 0
	}
	s := fmt.Sprintf("imsi-%d%05d%06d", lead, os.Getpid()%100000, n)
	e.Track(s)
	return s
}

// Track remembers a SUPI whose /tmp/<supi>.cdr must be removed at exit.
func (e *Env) Track(supi string) {
	e.mu.Lock()
	e.created[supi] = true
	e.mu.Unlock()
}

// Cleanup removes the CDR files the product wrote for tracked subscribers.
func (e *Env) Cleanup() {
	e.mu.Lock()
	defer e.mu.Unlock()
	for s := range e.created {
		_ = os.Remove("/tmp/" + s + ".cdr")
	}
}

// SetAccount creates or overwrites the account document of (supi, rg).
func (e *Env) SetAccount(supi string, rg int32, quota int64, unitCost string) {
	e.SetAccount64(supi, int64(rg), quota, unitCost)
}

// SetAccount64 takes the rating group as the Unsigned32 it is on the Diameter interfaces (numbers from 2^31 on are
// stored as 64-bit integers, the way the driver stores an unsigned value that does not fit 32 signed bits).
func (e *Env) SetAccount64(supi string, rg int64, quota int64, unitCost string) {
	if e.FM.Get(Coll, supi, rg) != nil {
		e.FM.SetField(Coll, supi, rg, "quota", strconv.FormatInt(quota, 10))
		e.FM.SetField(Coll, supi, rg, "unitCost", unitCost)
		return
	}
	var stored interface{} = int32(rg)
	if rg > 1<<31-1 {
		stored = rg
	}
	e.FM.Put(Coll, bson.M{"ueId": supi, "ratingGroup": stored, "quota": strconv.FormatInt(quota, 10), "unitCost": unitCost})
}

// Quota returns the stored balance of (supi, rg).
func (e *Env) Quota(supi string, rg int32) (int64, error) { return e.Quota64(supi, int64(rg)) }

func (e *Env) Quota64(supi string, rg int64) (int64, error) {
	d := e.FM.Get(Coll, supi, rg)
	if d == nil {
		return 0, fmt.Errorf("no account document for %s/%d", supi, rg)
	}
	s, ok := d["quota"].(string)
	if !ok {
		return 0, fmt.Errorf("quota of %s/%d is not a string: %v", supi, rg, d["quota"])
	}
	return strconv.ParseInt(s, 10, 64)
}

// AddQuota is what the web console does on a recharge: raise the stored quota.
func (e *Env) AddQuota(supi string, rg int32, amount int64) error {
	q, err := e.Quota(supi, rg)
	if err != nil {
		return err
	}
	e.FM.SetField(Coll, supi, int64(rg), "quota", strconv.FormatInt(q+amount, 10))
	return nil
}
