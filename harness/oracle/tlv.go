// Package oracle holds the independent oracles shared by the engines: a generic
// BER TLV walker (X.690 8.1) and a TS 32.297 clause 6.1 CDR file reader.
package oracle

import "fmt"

// ---------------------------------------------------------------------
// generic TLV walker: structural well-formedness of a definite-length BER
// element (X.690 8.1), with the DER-like minimality the property demands.

type TLVErr struct{ What, Detail string }

func (e *TLVErr) Error() string { return e.What + ": " + e.Detail }

// walkTLV checks that b is exactly one well-formed element; returns the
// number of elements visited.
func WalkTLV(b []byte) (int, error) {
	n, used, err := walkOne(b, 0)
	if err != nil {
		return n, err
	}
	if used != len(b) {
		return n, &TLVErr{"trailing", fmt.Sprintf("element occupies %d of %d octets", used, len(b))}
	}
	return n, nil
}

func walkOne(b []byte, depth int) (count, used int, err error) {
	if depth > 200 {
		return 0, 0, &TLVErr{"depth", "nesting deeper than 200"}
	}
	if len(b) < 2 {
		return 0, 0, &TLVErr{"truncated", "less than 2 octets"}
	}
	class := int(b[0] >> 6)
	constructed := b[0]&0x20 != 0
	tag := uint64(b[0] & 0x1f)
	off := 1
	if tag == 31 {
		tag = 0
		first := true
		for {
			if off >= len(b) {
				return 0, 0, &TLVErr{"truncated", "tag number runs off"}
			}
			c := b[off]
			if first && c == 0x80 {
				return 0, 0, &TLVErr{"tag-not-minimal", "leading 0x80 in tag number"}
			}
			first = false
			if tag>>57 != 0 {
				return 0, 0, &TLVErr{"tag-overflow", "tag number > 64 bits"}
			}
			tag = tag<<7 | uint64(c&0x7f)
			off++
			if c&0x80 == 0 {
				break
			}
		}
		if tag < 31 {
			return 0, 0, &TLVErr{"tag-not-minimal", "high-tag form for tag < 31"}
		}
	}
	if off >= len(b) {
		return 0, 0, &TLVErr{"truncated", "no length octet"}
	}
	var l int
	if b[off] < 128 {
		l = int(b[off])
		off++
	} else {
		n := int(b[off] & 0x7f)
		off++
		if n == 0 {
			return 0, 0, &TLVErr{"indefinite", "indefinite length"}
		}
		if n > 4 || off+n > len(b) {
			return 0, 0, &TLVErr{"truncated", "length octets run off / too many"}
		}
		if b[off] == 0 {
			return 0, 0, &TLVErr{"len-not-minimal", "leading zero length octet"}
		}
		for i := 0; i < n; i++ {
			l = l<<8 | int(b[off+i])
		}
		if l < 128 {
			return 0, 0, &TLVErr{"len-not-minimal", "long form for length < 128"}
		}
		off += n
	}
	if off+l > len(b) {
		return 0, 0, &TLVErr{"truncated", fmt.Sprintf("declared length %d exceeds the %d octets available", l, len(b)-off)}
	}
	content := b[off : off+l]
	count = 1
	if constructed {
		p := 0
		for p < len(content) {
			c, u, err := walkOne(content[p:], depth+1)
			count += c
			if err != nil {
				return count, 0, err
			}
			p += u
		}
		if p != len(content) {
			return count, 0, &TLVErr{"children", "children do not sum to the parent length"}
		}
	} else if class == 0 {
		switch tag {
		case 0:
			return count, 0, &TLVErr{"universal-0", "universal tag 0 (end-of-contents) used for a value"}
		case 1:
			if l != 1 || (content[0] != 0 && content[0] != 0xff) {
				return count, 0, &TLVErr{"boolean", fmt.Sprintf("content %x", content)}
			}
		case 2, 10:
			if l == 0 {
				return count, 0, &TLVErr{"integer", "empty content"}
			}
			if l > 1 && ((content[0] == 0 && content[1]&0x80 == 0) || (content[0] == 0xff && content[1]&0x80 != 0)) {
				return count, 0, &TLVErr{"integer-not-minimal", fmt.Sprintf("content %x", content)}
			}
		case 3:
			if l == 0 || content[0] > 7 || (l == 1 && content[0] != 0) {
				return count, 0, &TLVErr{"bitstring-unused", fmt.Sprintf("first octet %x of %d", content[:min(1, l)], l)}
			}
		case 5:
			if l != 0 {
				return count, 0, &TLVErr{"null", "non-empty NULL"}
			}
		case 16, 17:
			return count, 0, &TLVErr{"constructed-bit", "SEQUENCE/SET encoded primitive"}
		}
	}
	return count, off + l, nil
}
