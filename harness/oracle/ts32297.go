package oracle

import (
	"encoding/binary"
	"fmt"
)

// TS is a CDR file header timestamp (TS 32.297 table 6.1.1.x: month, date, hour, minute, sign, deviation).
type TS struct{ Mo, D, H, Mi, S, HD, MD uint8 }

type SpecFile struct {
	FileLength, HeaderLength   uint32
	HiRel, HiVer, LoRel, LoVer uint8
	Open, Last                 TS
	NCdr, Seq                  uint32
	Reason                     uint8
	IP                         [20]byte
	Lost                       uint8
	RF, PE                     []byte
	HiExt, LoExt               uint8
	Recs                       []SpecRec
	Consumed                   int
}
type SpecRec struct {
	Len                     uint16
	Rel, Ver, Fmt, TsN, Ext uint8
	Payload                 []byte
}

func SpecTS(w uint32) TS {
	return TS{Mo: uint8(w >> 28), D: uint8(w >> 23 & 31), H: uint8(w >> 18 & 31), Mi: uint8(w >> 12 & 63),
		S: uint8(w >> 11 & 1), HD: uint8(w >> 6 & 31), MD: uint8(w & 63)}
}

// readSpec parses per TS 32.297 6.1.1 (file header) and 6.1.2 (CDR header).
func ReadSpec(d []byte) (f SpecFile, err error) {
	defer func() {
		if e := recover(); e != nil {
			err = fmt.Errorf("reader ran off the file: %v", e)
		}
	}()
	be := binary.BigEndian
	f.FileLength, f.HeaderLength = be.Uint32(d[0:]), be.Uint32(d[4:])
	f.HiRel, f.HiVer = d[8]>>5, d[8]&0x1f
	f.LoRel, f.LoVer = d[9]>>5, d[9]&0x1f
	f.Open, f.Last = SpecTS(be.Uint32(d[10:])), SpecTS(be.Uint32(d[14:]))
	f.NCdr, f.Seq = be.Uint32(d[18:]), be.Uint32(d[22:])
	f.Reason = d[26]
	copy(f.IP[:], d[27:47])
	f.Lost = d[47]
	p := 48
	l := int(be.Uint16(d[p:]))
	p += 2
	f.RF = d[p : p+l]
	p += l
	l = int(be.Uint16(d[p:]))
	p += 2
	f.PE = d[p : p+l]
	p += l
	if f.HiRel == 7 {
		f.HiExt = d[p]
		p++
	}
	if f.LoRel == 7 {
		f.LoExt = d[p]
		p++
	}
	if uint32(p) != f.HeaderLength {
		return f, fmt.Errorf("HeaderLength field %d but header occupies %d octets", f.HeaderLength, p)
	}
	for i := uint32(0); i < f.NCdr; i++ {
		var r SpecRec
		r.Len = be.Uint16(d[p:])
		r.Rel, r.Ver = d[p+2]>>5, d[p+2]&0x1f
		r.Fmt, r.TsN = d[p+3]>>5, d[p+3]&0x1f
		p += 4
		if r.Rel == 7 {
			r.Ext = d[p]
			p++
		}
		r.Payload = d[p : p+int(r.Len)]
		p += int(r.Len)
		f.Recs = append(f.Recs, r)
	}
	f.Consumed = p
	return f, nil
}
