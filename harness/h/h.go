// Package h is the common runner of the verification harness: it drives a
// property (generator + judge) with rapid or with an enumerator, counts and
// classifies the cases, tolerates failures whose signature is a listed known
// finding, captures the shrunk failing case and writes one summary file per
// (unit, shard) that the driver merges into the evidence file.
package h

import (
	"bufio"
	"encoding/binary"
	"encoding/json"
	"fmt"
	"hash/fnv"
	"os"
	"path/filepath"
	"runtime/debug"
	"sort"
	"strings"
	"sync"
	"testing"
	"time"

	"pgregory.net/rapid"
)

// Verdict is what a judge returns for one case.
type Verdict struct {
	Labels     []string // classes this case belongs to
	NonTrivial bool     // by the property's stated rule
	Sig        string   // "" = held; otherwise the failure signature
	Msg        string   // human-readable description of the failure
	Skipped    bool     // case outside the property's domain (counted, not judged)
}

func (v *Verdict) Label(l string) { v.Labels = append(v.Labels, l) }
func (v *Verdict) NT(l string)    { v.Labels = append(v.Labels, l); v.NonTrivial = true }
func (v *Verdict) Failf(sig, f string, a ...interface{}) *Verdict {
	if v.Sig == "" {
		v.Sig = sig
		v.Msg = fmt.Sprintf(f, a...)
	}
	return v
}
func (v *Verdict) Failed() bool { return v.Sig != "" }

type failure struct {
	Sig  string          `json:"sig"`
	Msg  string          `json:"msg"`
	Case json.RawMessage `json:"case"`
}

// Summary is the per-(unit,shard) output.
type Summary struct {
	Property       string             `json:"property"`
	Unit           string             `json:"unit"`
	Shard          string             `json:"shard"`
	Seed           uint64             `json:"seed"`
	Evaluations    int                `json:"evaluations"`
	Skipped        int                `json:"skipped"`
	NonTrivial     int                `json:"nontrivial"` // not de-duplicated (driver de-duplicates by hash)
	Labels         map[string]int     `json:"labels"`
	KnownHits      map[string]int     `json:"known_hits"`
	Excluded       map[string]int     `json:"excluded"`
	Samples        []json.RawMessage  `json:"samples"`
	Failure        *failure           `json:"failure,omitempty"`
	Exhaustive     bool               `json:"exhaustive"`
	DistinctNoHash int                `json:"distinct_by_construction"` // non-trivial cases of an enumeration (pairwise distinct by construction, not hashed)
	Completed      bool               `json:"completed"`
	Extra          map[string]float64 `json:"extra,omitempty"`
	Notes          []string           `json:"notes,omitempty"`
}

type Recorder struct {
	mu       sync.Mutex
	sum      Summary
	known    map[string]bool
	hashes   map[uint64]struct{}
	lastFail *failure
	outDir   string
	maxSamp  int
	enum     bool // cases come from an enumeration without repetition: count instead of hashing
}

func env(k, d string) string {
	if v := os.Getenv(k); v != "" {
		return v
	}
	return d
}

func Tier() string       { return env("VERIF_TIER", "quick") }
func Thorough() bool     { return Tier() == "thorough" }
func ReplayFile() string { return os.Getenv("VERIF_REPLAY") }
func WorkDir() string    { return env("VERIF_WORK", os.TempDir()) }

// Scale returns q in the quick tier and th in the thorough tier.
func Scale(q, th int) int {
	if Thorough() {
		return th
	}
	return q
}

func loadKnown(prop string) map[string]bool {
	m := map[string]bool{}
	f, err := os.Open(env("VERIF_KNOWN", "/verif/KNOWN_FINDINGS.txt"))
	if err != nil {
		return m
	}
	defer f.Close()
	sc := bufio.NewScanner(f)
	sc.Buffer(make([]byte, 1<<20), 1<<20)
	for sc.Scan() {
		line := strings.TrimSpace(sc.Text())
		if !strings.HasPrefix(line, "known:") {
			continue
		}
		var p, sig string
		for _, w := range strings.Fields(line) {
			if strings.HasPrefix(w, "property=") {
				p = w[len("property="):]
			}
			if strings.HasPrefix(w, "sig=") {
				sig = w[len("sig="):]
			}
		}
		if p == prop && sig != "" {
			m[sig] = true
		}
	}
	return m
}

func NewRecorder(prop, unit string) *Recorder {
	r := &Recorder{known: loadKnown(prop), hashes: map[uint64]struct{}{}, outDir: env("VERIF_OUT", ""), maxSamp: 4}
	r.sum = Summary{Property: prop, Unit: unit, Shard: env("VERIF_SHARD", "0"),
		Labels: map[string]int{}, KnownHits: map[string]int{}, Excluded: map[string]int{}}
	return r
}

func (r *Recorder) Known(sig string) bool { return r.known[sig] }

// Excluded counts a case steered away from a known finding by construction.
func (r *Recorder) Exclude(sig string) {
	r.mu.Lock()
	r.sum.Excluded[sig]++
	r.mu.Unlock()
}

func (r *Recorder) Extra(k string, v float64) {
	r.mu.Lock()
	if r.sum.Extra == nil {
		r.sum.Extra = map[string]float64{}
	}
	r.sum.Extra[k] = v
	r.mu.Unlock()
}

func (r *Recorder) Note(f string, a ...interface{}) {
	r.mu.Lock()
	if len(r.sum.Notes) < 50 {
		r.sum.Notes = append(r.sum.Notes, fmt.Sprintf(f, a...))
	}
	r.mu.Unlock()
}

func hash64(b []byte) uint64 {
	hh := fnv.New64a()
	hh.Write(b)
	return hh.Sum64()
}

// Observe records one judged case.  It returns true when the case is a
// violation that is not a listed known finding.
func (r *Recorder) Observe(caseJSON []byte, v *Verdict) bool {
	r.mu.Lock()
	defer r.mu.Unlock()
	r.sum.Evaluations++
	if v.Skipped {
		r.sum.Skipped++
		return false
	}
	for _, l := range v.Labels {
		r.sum.Labels[l]++
	}
	if v.NonTrivial {
		r.sum.NonTrivial++
		if r.enum {
			r.sum.DistinctNoHash++
		} else {
			r.hashes[hash64(caseJSON)] = struct{}{}
		}
		if len(r.sum.Samples) < r.maxSamp && len(caseJSON) < 6000 {
			r.sum.Samples = append(r.sum.Samples, append([]byte(nil), caseJSON...))
		}
	} else if len(r.sum.Samples) == 0 && len(caseJSON) < 6000 {
		// keep at least one sample even if nothing turned out non-trivial
		r.sum.Samples = append(r.sum.Samples, append([]byte(nil), caseJSON...))
	}
	if v.Sig == "" {
		return false
	}
	if r.known[v.Sig] || (os.Getenv("VERIF_TOLERATE_ALL") != "" && !strings.HasPrefix(v.Sig, "HARNESS")) {
		// VERIF_TOLERATE_ALL is a triage aid (never set by the registered commands): survey all failure signatures in one run
		r.sum.KnownHits[v.Sig]++
		if len(r.sum.Notes) < 40 && r.sum.KnownHits[v.Sig] == 1 {
			r.sum.Notes = append(r.sum.Notes, v.Sig+": "+firstLines(v.Msg, 3)+" CASE "+string(caseJSON))
		}
		return false
	}
	r.lastFail = &failure{Sig: v.Sig, Msg: v.Msg, Case: append([]byte(nil), caseJSON...)}
	return true
}

func (r *Recorder) Close(completed bool) {
	r.mu.Lock()
	defer r.mu.Unlock()
	r.sum.Completed = completed
	r.sum.Failure = r.lastFail
	if r.outDir == "" {
		return
	}
	base := filepath.Join(r.outDir, fmt.Sprintf("%s.%s.%s", r.sum.Property, r.sum.Unit, r.sum.Shard))
	hs := make([]uint64, 0, len(r.hashes))
	for k := range r.hashes {
		hs = append(hs, k)
	}
	sort.Slice(hs, func(i, j int) bool { return hs[i] < hs[j] })
	buf := make([]byte, 8*len(hs))
	for i, x := range hs {
		binary.LittleEndian.PutUint64(buf[8*i:], x)
	}
	_ = os.WriteFile(base+".hashes", buf, 0o644)
	b, _ := json.Marshal(&r.sum)
	_ = os.WriteFile(base+".json", b, 0o644)
}

// Safely runs f and converts a panic into a verdict failure with the given
// signature prefix (used around calls into the code under test).
func Safely(f func()) (panicked bool, val interface{}, stack string) {
	defer func() {
		if e := recover(); e != nil {
			panicked, val, stack = true, e, string(debug.Stack())
		}
	}()
	f()
	return
}

// PanicFrame returns the first function of the CHF module found in a stack.
func PanicFrame(stack string) string {
	for _, line := range strings.Split(stack, "\n") {
		line = strings.TrimSpace(line)
		if strings.HasPrefix(line, "github.com/free5gc/chf/") && !strings.Contains(line, "verifapi") {
			fn := line
			if i := strings.LastIndex(fn, "("); i > 0 {
				fn = fn[:i]
			}
			fn = strings.TrimPrefix(fn, "github.com/free5gc/chf/")
			return fn
		}
	}
	return "?"
}

// PanicClass normalises a panic value to a short class.
func PanicClass(v interface{}) string {
	s := fmt.Sprint(v)
	switch {
	case strings.Contains(s, "nil pointer"):
		return "nilptr"
	case strings.Contains(s, "index out of range"):
		return "index"
	case strings.Contains(s, "slice bounds out of range"):
		return "slice"
	case strings.Contains(s, "divide by zero"):
		return "div0"
	case strings.Contains(s, "nil map"):
		return "nilmap"
	case strings.Contains(s, "reflect"):
		return "reflect"
	}
	if len(s) > 24 {
		s = s[:24]
	}
	return strings.Map(func(r rune) rune {
		if r == ' ' || r == '=' {
			return '_'
		}
		return r
	}, s)
}

// Run drives a property: gen draws a case with rapid, judge decides it.
// C must be JSON round-trippable (that is the replay format).
func Run[C any](t *testing.T, prop, unit string, gen func(*rapid.T) C, judge func(C) *Verdict) {
	r := NewRecorder(prop, unit)
	RunWith(t, r, gen, judge)
}

func judgeGuard[C any](judge func(C) *Verdict, c C) (v *Verdict) {
	defer func() {
		if e := recover(); e != nil {
			v = &Verdict{Sig: "HARNESS-PANIC", Msg: fmt.Sprintf("harness panic: %v\n%s", e, debug.Stack())}
		}
	}()
	return judge(c)
}

func RunWith[C any](t *testing.T, r *Recorder, gen func(*rapid.T) C, judge func(C) *Verdict) {
	completed := false
	defer func() { r.Close(completed) }()
	if f := ReplayFile(); f != "" {
		replay(t, r, f, judge)
		completed = true
		return
	}
	// the first cheap cases that held are judged once more at the very end of the process: a judge is a function of
	// its case, so a case that held at the beginning must hold again after thousands of others (caches, pools and
	// tables that the code under test fills in between must not change what it does with an early value)
	var early []C
	rapid.Check(t, func(rt *rapid.T) {
		c := gen(rt)
		b, err := json.Marshal(c)
		if err != nil {
			panic("case not serialisable: " + err.Error())
		}
		t0 := time.Now()
		v := judgeGuard(judge, c)
		if len(early) < 12 && !v.Failed() && !v.Skipped && time.Since(t0) < 150*time.Millisecond {
			early = append(early, c)
		}
		if r.Observe(b, v) {
			rt.Fatalf("VIOLATION sig=%s", v.Sig) // message must be deterministic or rapid refuses to shrink
		}
	})
	if !t.Failed() {
		for _, c := range early {
			v := judgeGuard(judge, c)
			if v.Failed() {
				v.Sig = "held-at-first-fails-when-revisited/" + v.Sig
				v.Msg = "this case held when it was judged at the beginning of the process and fails when judged again at its end, after all the others (replaying it alone will hold: the failure needs the history): " + v.Msg
			}
			v.Labels = append(v.Labels, "revisited-at-the-end")
			b, _ := json.Marshal(c)
			if r.Observe(b, v) {
				t.Errorf("VIOLATION sig=%s %s", v.Sig, v.Msg)
				break
			}
		}
	}
	completed = true
}

// Enum drives a property over an explicitly enumerated domain.
func Enum[C any](t *testing.T, r *Recorder, each func(yield func(C) bool), judge func(C) *Verdict, closeAfter bool) {
	completed := false
	if closeAfter {
		defer func() { r.Close(completed) }()
	}
	if f := ReplayFile(); f != "" {
		replay(t, r, f, judge)
		completed = true
		return
	}
	stop := false
	r.enum = true
	each(func(c C) bool {
		b, _ := json.Marshal(c)
		v := judgeGuard(judge, c)
		if r.Observe(b, v) {
			t.Errorf("VIOLATION sig=%s %s", v.Sig, v.Msg)
			stop = true
			return false
		}
		return true
	})
	completed = !stop
}

type replayFile struct {
	Property string          `json:"property"`
	Unit     string          `json:"unit"`
	Sig      string          `json:"sig"`
	Msg      string          `json:"msg"`
	Case     json.RawMessage `json:"case"`
}

func replay[C any](t *testing.T, r *Recorder, file string, judge func(C) *Verdict) {
	b, err := os.ReadFile(file)
	if err != nil {
		t.Fatalf("HARNESS replay file: %v", err)
	}
	var rf replayFile
	if err := json.Unmarshal(b, &rf); err != nil {
		t.Fatalf("HARNESS replay file: %v", err)
	}
	if rf.Unit != "" && rf.Unit != r.sum.Unit {
		t.Skipf("replay is for unit %s", rf.Unit)
	}
	var c C
	if err := json.Unmarshal(rf.Case, &c); err != nil {
		t.Fatalf("HARNESS replay case: %v", err)
	}
	// In replay mode known findings are not tolerated: the point is to see
	// whether the case still fails and with which signature.
	r.known = map[string]bool{}
	v := judgeGuard(judge, c)
	cb, _ := json.Marshal(c)
	if r.Observe(cb, v) {
		t.Errorf("VIOLATION sig=%s %s", v.Sig, v.Msg)
	}
}

func firstLines(s string, n int) string {
	parts := strings.SplitN(s, "\n", n+1)
	if len(parts) > n {
		parts = parts[:n]
	}
	return strings.Join(parts, " | ")
}
