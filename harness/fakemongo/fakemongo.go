// Package fakemongo is a minimal in-process MongoDB wire-protocol server
// (OP_QUERY handshake + OP_MSG commands) sufficient for free5gc/util/mongoapi.
package fakemongo

import (
	"encoding/binary"
	"fmt"
	"io"
	"net"
	"strings"
	"sync"
	"time"

	"go.mongodb.org/mongo-driver/bson"
	"go.mongodb.org/mongo-driver/bson/primitive"
)

type Server struct {
	ln    net.Listener
	mu    sync.Mutex
	colls map[string][]bson.M
	Ops   map[string]int
	// injected faults (FailNextFind, FailNextUpdateApplied)
	failFind, failUpdateApplied int
}

func Start() (*Server, error) {
	ln, err := net.Listen("tcp", "127.0.0.1:0")
	if err != nil {
		return nil, err
	}
	s := &Server{ln: ln, colls: map[string][]bson.M{}, Ops: map[string]int{}}
	go s.accept()
	return s, nil
}

func (s *Server) URL() string { return "mongodb://" + s.ln.Addr().String() }

func (s *Server) accept() {
	for {
		c, err := s.ln.Accept()
		if err != nil {
			return
		}
		go s.serve(c)
	}
}

func readCString(b []byte) (string, []byte) {
	i := 0
	for i < len(b) && b[i] != 0 {
		i++
	}
	return string(b[:i]), b[i+1:]
}

func (s *Server) serve(c net.Conn) {
	defer c.Close()
	hdr := make([]byte, 16)
	for {
		if _, err := io.ReadFull(c, hdr); err != nil {
			return
		}
		l := int(binary.LittleEndian.Uint32(hdr[0:]))
		reqID := binary.LittleEndian.Uint32(hdr[4:])
		op := binary.LittleEndian.Uint32(hdr[12:])
		body := make([]byte, l-16)
		if _, err := io.ReadFull(c, body); err != nil {
			return
		}
		switch op {
		case 2004: // OP_QUERY
			rest := body[4:]
			_, rest = readCString(rest)
			rest = rest[8:]
			dl := int(binary.LittleEndian.Uint32(rest))
			var cmd bson.D
			if err := bson.Unmarshal(rest[:dl], &cmd); err != nil {
				return
			}
			reply := s.handle(cmd)
			rb, _ := bson.Marshal(reply)
			out := make([]byte, 16+20, 16+20+len(rb))
			binary.LittleEndian.PutUint32(out[0:], uint32(16+20+len(rb)))
			binary.LittleEndian.PutUint32(out[4:], 1)
			binary.LittleEndian.PutUint32(out[8:], reqID)
			binary.LittleEndian.PutUint32(out[12:], 1)
			binary.LittleEndian.PutUint32(out[16:], 8)
			binary.LittleEndian.PutUint32(out[32:], 1)
			out = append(out, rb...)
			if _, err := c.Write(out); err != nil {
				return
			}
		case 2013: // OP_MSG
			flags := binary.LittleEndian.Uint32(body)
			rest := body[4:]
			if flags&1 != 0 {
				rest = rest[:len(rest)-4]
			}
			var cmd bson.D
			for len(rest) > 0 {
				kind := rest[0]
				rest = rest[1:]
				if kind == 0 {
					dl := int(binary.LittleEndian.Uint32(rest))
					var d bson.D
					if err := bson.Unmarshal(rest[:dl], &d); err != nil {
						return
					}
					cmd = append(d, cmd...)
					rest = rest[dl:]
				} else {
					sl := int(binary.LittleEndian.Uint32(rest))
					sec := rest[4:sl]
					rest = rest[sl:]
					var id string
					id, sec = readCString(sec)
					var arr bson.A
					for len(sec) > 0 {
						dl := int(binary.LittleEndian.Uint32(sec))
						var d bson.D
						if err := bson.Unmarshal(sec[:dl], &d); err != nil {
							return
						}
						arr = append(arr, d)
						sec = sec[dl:]
					}
					cmd = append(cmd, bson.E{Key: id, Value: arr})
				}
			}
			reply := s.handle(cmd)
			rb, _ := bson.Marshal(reply)
			out := make([]byte, 16+5, 16+5+len(rb))
			binary.LittleEndian.PutUint32(out[0:], uint32(16+5+len(rb)))
			binary.LittleEndian.PutUint32(out[4:], 1)
			binary.LittleEndian.PutUint32(out[8:], reqID)
			binary.LittleEndian.PutUint32(out[12:], 2013)
			out = append(out, rb...)
			if _, err := c.Write(out); err != nil {
				return
			}
		default:
			return
		}
	}
}

func get(d bson.D, k string) interface{} {
	for _, e := range d {
		if e.Key == k {
			return e.Value
		}
	}
	return nil
}

func num(v interface{}) (float64, bool) {
	switch x := v.(type) {
	case int32:
		return float64(x), true
	case int64:
		return float64(x), true
	case float64:
		return x, true
	case int:
		return float64(x), true
	}
	return 0, false
}

func eq(a, b interface{}, fold bool) bool {
	if x, ok := num(a); ok {
		y, ok2 := num(b)
		return ok2 && x == y
	}
	if x, ok := a.(string); ok {
		y, ok2 := b.(string)
		if !ok2 {
			return false
		}
		if fold {
			return strings.EqualFold(x, y)
		}
		return x == y
	}
	return fmt.Sprint(a) == fmt.Sprint(b)
}

func match(doc bson.M, filter bson.D, fold bool) bool {
	for _, e := range filter {
		v, ok := doc[e.Key]
		if !ok || !eq(v, e.Value, fold) {
			return false
		}
	}
	return true
}

func toD(v interface{}) bson.D {
	switch x := v.(type) {
	case bson.D:
		return x
	case nil:
		return nil
	}
	return nil
}

func fold(cmd bson.D) bool {
	if c := toD(get(cmd, "collation")); c != nil {
		if st, ok := num(get(c, "strength")); ok && st <= 2 {
			return true
		}
	}
	return false
}

func (s *Server) handle(cmd bson.D) bson.D {
	if len(cmd) == 0 {
		return bson.D{{Key: "ok", Value: 0.0}}
	}
	name := cmd[0].Key
	s.mu.Lock()
	defer s.mu.Unlock()
	s.Ops[name]++
	db, _ := get(cmd, "$db").(string)
	switch name {
	case "isMaster", "ismaster", "hello":
		return bson.D{
			{Key: "ismaster", Value: true}, {Key: "isWritablePrimary", Value: true}, {Key: "helloOk", Value: true},
			{Key: "maxBsonObjectSize", Value: int32(16777216)}, {Key: "maxMessageSizeBytes", Value: int32(48000000)},
			{Key: "maxWriteBatchSize", Value: int32(100000)}, {Key: "localTime", Value: primitive.NewDateTimeFromTime(time.Now())},
			{Key: "minWireVersion", Value: int32(0)}, {Key: "maxWireVersion", Value: int32(13)},
			{Key: "readOnly", Value: false}, {Key: "ok", Value: 1.0},
		}
	case "find":
		if s.failFind > 0 {
			// injected fault: the command fails (a code the driver does not retry)
			s.failFind--
			return bson.D{{Key: "ok", Value: 0.0}, {Key: "errmsg", Value: "injected: not authorized on the collection to execute command"}, {Key: "code", Value: int32(13)}, {Key: "codeName", Value: "Unauthorized"}}
		}
		coll, _ := cmd[0].Value.(string)
		ns := db + "." + coll
		f := toD(get(cmd, "filter"))
		limit, _ := num(get(cmd, "limit"))
		batch := bson.A{}
		for _, d := range s.colls[ns] {
			if match(d, f, fold(cmd)) {
				batch = append(batch, d)
				if limit > 0 && float64(len(batch)) >= limit {
					break
				}
			}
		}
		return bson.D{{Key: "cursor", Value: bson.D{{Key: "firstBatch", Value: batch}, {Key: "id", Value: int64(0)}, {Key: "ns", Value: ns}}}, {Key: "ok", Value: 1.0}}
	case "insert":
		coll, _ := cmd[0].Value.(string)
		ns := db + "." + coll
		docs, _ := get(cmd, "documents").(bson.A)
		for _, x := range docs {
			m := bson.M{}
			for _, e := range toD(x) {
				m[e.Key] = e.Value
			}
			if _, ok := m["_id"]; !ok {
				m["_id"] = primitive.NewObjectID()
			}
			s.colls[ns] = append(s.colls[ns], m)
		}
		return bson.D{{Key: "n", Value: int32(len(docs))}, {Key: "ok", Value: 1.0}}
	case "update":
		coll, _ := cmd[0].Value.(string)
		ns := db + "." + coll
		ups, _ := get(cmd, "updates").(bson.A)
		n := 0
		for _, x := range ups {
			u := toD(x)
			q := toD(get(u, "q"))
			set := toD(get(toD(get(u, "u")), "$set"))
			for _, d := range s.colls[ns] {
				if match(d, q, fold(u)) {
					for _, e := range set {
						d[e.Key] = e.Value
					}
					n++
					break
				}
			}
		}
		if s.failUpdateApplied > 0 {
			// injected fault: the write is applied, but the server reports that it could not be acknowledged
			s.failUpdateApplied--
			return bson.D{{Key: "n", Value: int32(n)}, {Key: "nModified", Value: int32(n)}, {Key: "ok", Value: 1.0},
				{Key: "writeConcernError", Value: bson.D{{Key: "code", Value: int32(64)}, {Key: "codeName", Value: "WriteConcernFailed"}, {Key: "errmsg", Value: "injected: waiting for replication timed out"}}}}
		}
		return bson.D{{Key: "n", Value: int32(n)}, {Key: "nModified", Value: int32(n)}, {Key: "ok", Value: 1.0}}
	case "ping", "endSessions", "killCursors":
		return bson.D{{Key: "ok", Value: 1.0}}
	}
	return bson.D{{Key: "ok", Value: 0.0}, {Key: "errmsg", Value: "no such command: " + name}, {Key: "code", Value: int32(59)}}
}

// FailNextFind makes the next n find commands fail with a command error.
func (s *Server) FailNextFind(n int) {
	s.mu.Lock()
	s.failFind = n
	s.mu.Unlock()
}

// FailNextUpdateApplied makes the next n update commands be applied and answered with a write-concern error.
func (s *Server) FailNextUpdateApplied(n int) {
	s.mu.Lock()
	s.failUpdateApplied = n
	s.mu.Unlock()
}

// Put directly stores a document (test setup).
func (s *Server) Put(ns string, doc bson.M) {
	s.mu.Lock()
	defer s.mu.Unlock()
	s.colls[ns] = append(s.colls[ns], doc)
}

// Get returns the first doc matching ueId/ratingGroup.
func (s *Server) Get(ns, ueId string, rg int64) bson.M {
	s.mu.Lock()
	defer s.mu.Unlock()
	for _, d := range s.colls[ns] {
		if d["ueId"] == ueId && eq(d["ratingGroup"], rg, false) {
			c := bson.M{}
			for k, v := range d {
				c[k] = v
			}
			return c
		}
	}
	return nil
}

// SetField sets one field of the first document matching ueId/ratingGroup.
func (s *Server) SetField(ns, ueId string, rg int64, key string, val interface{}) bool {
	s.mu.Lock()
	defer s.mu.Unlock()
	for _, d := range s.colls[ns] {
		if d["ueId"] == ueId && eq(d["ratingGroup"], rg, false) {
			d[key] = val
			return true
		}
	}
	return false
}

// Dump returns a copy of every document of a collection.
func (s *Server) Dump(ns string) []bson.M {
	s.mu.Lock()
	defer s.mu.Unlock()
	var out []bson.M
	for _, d := range s.colls[ns] {
		c := bson.M{}
		for k, v := range d {
			c[k] = v
		}
		out = append(out, c)
	}
	return out
}

// WriteOps is the number of insert/update commands served so far.
func (s *Server) WriteOps() int {
	s.mu.Lock()
	defer s.mu.Unlock()
	return s.Ops["insert"] + s.Ops["update"] + s.Ops["delete"] + s.Ops["findAndModify"]
}

// AllOps is the number of commands of any kind served so far (handshakes excluded).
func (s *Server) AllOps() int {
	s.mu.Lock()
	defer s.mu.Unlock()
	n := 0
	for k, v := range s.Ops {
		switch k {
		case "isMaster", "ismaster", "hello", "ping", "endSessions":
		default:
			n += v
		}
	}
	return n
}
