package ber

// Unit scale (C04, C05, C16): types and values whose size lies beyond what the type generator draws - SEQUENCE and SET
// types of 64 members and more, nesting of 16-28 levels, complete values of the aggregate schema types (every optional
// member present, every list filled: the deepest paths of the schema), lists of more than 65536 elements - and a
// process that has handled more than 32768 distinct types before it handles an early one again.

import (
	"encoding/json"
	"fmt"
	"reflect"
	"testing"

	"pgregory.net/rapid"

	"verifharness/h"
)

func genWide(t *rapid.T) Case {
	n := rapid.SampledFrom([]int{63, 64, 65, 66, 70, 100, 130}).Draw(t, "members")
	s := TypeSpec{Kind: "struct"}
	for i := 0; i < n; i++ {
		ft := TypeSpec{Prim: rapid.SampledFrom([]string{"int", "bool", "octets", "utf8", "enum", "null", "int64"}).Draw(t, "prim")}
		f := FieldSpec{Name: fmt.Sprintf("F%d", i), Type: ft, Tag: fmt.Sprintf("tagNum:%d", i)}
		if rapid.IntRange(0, 3).Draw(t, "optional") > 0 {
			f.Ptr, f.Tag = true, f.Tag+",optional"
		}
		s.Fields = append(s.Fields, f)
	}
	params := rapid.SampledFrom([]string{"set", "set", "", "tagNum:3,set"}).Draw(t, "params")
	if rapid.IntRange(0, 3).Draw(t, "nested") == 0 {
		// the wide type as a member
		s = TypeSpec{Kind: "struct", Fields: []FieldSpec{{Name: "F0", Type: TypeSpec{Prim: "int"}, Tag: "tagNum:0"}, {Name: "F1", Type: s, Tag: "tagNum:1," + rapid.SampledFrom([]string{"set", "set", "explicit"}).Draw(t, "memberParams")}}}
		params = ""
	}
	typ := s.Build()
	pv := reflect.New(typ)
	g := &valGen{t: t, budget: 400}
	g.fill(pv.Elem(), parseTag(params), 0)
	// the last members are the ones a narrow table forgets: make sure some of them are present
	w := pv.Elem()
	if w.Type().NumField() == 2 {
		w = w.Field(1)
	}
	for i := w.NumField() - 3; i < w.NumField(); i++ {
		if i >= 0 && w.Field(i).Kind() == reflect.Ptr && w.Field(i).IsNil() {
			g.fill(w.Field(i), parseTag(w.Type().Field(i).Tag.Get("ber")), 1)
		}
	}
	b, _ := json.Marshal(pv.Interface())
	return Case{Type: s, Params: params, Val: b}
}

func genDeep(t *rapid.T) Case {
	d := rapid.IntRange(16, 28).Draw(t, "depth")
	s := TypeSpec{Prim: rapid.SampledFrom([]string{"int", "octets", "utf8", "bool"}).Draw(t, "leaf")}
	for i := 0; i < d; i++ {
		in := s
		switch rapid.SampledFrom([]string{"struct", "struct", "explicit", "choice", "slice", "list", "pair"}).Draw(t, "wrapper") {
		case "struct":
			s = TypeSpec{Kind: "struct", Fields: []FieldSpec{{Name: "F0", Ptr: true, Type: in, Tag: tagFor(in, i%3, "")}}}
		case "explicit":
			s = TypeSpec{Kind: "struct", Fields: []FieldSpec{{Name: "F0", Ptr: true, Type: in, Tag: tagFor(in, 1, ",explicit")}}}
		case "choice":
			s = TypeSpec{Kind: "choice", Fields: []FieldSpec{{Name: "A0", Ptr: true, Type: TypeSpec{Prim: "null"}, Tag: "tagNum:0"}, {Name: "A1", Ptr: true, Type: in, Tag: tagFor(in, 1, "")}}}
		case "slice":
			s = TypeSpec{Kind: "slice", Elem: &in}
		case "list":
			s = TypeSpec{Kind: "list", Fields: []FieldSpec{{Name: "List", Type: TypeSpec{Kind: "slice", Elem: &in}}}}
		default:
			s = TypeSpec{Kind: "struct", Fields: []FieldSpec{{Name: "F0", Type: TypeSpec{Prim: "int"}, Tag: "tagNum:0"}, {Name: "F1", Ptr: true, Type: in, Tag: tagFor(in, 1, ",optional")}}}
		}
	}
	typ := s.Build()
	pv := reflect.New(typ)
	params := ""
	if s.Kind == "choice" {
		params = "explicit,choice"
	}
	g := &valGen{t: t, full: true}
	g.fillDeep(pv.Elem(), parseTag(params))
	b, _ := json.Marshal(pv.Interface())
	return Case{Type: s, Params: params, Val: b}
}

func tagFor(in TypeSpec, n int, more string) string {
	s := fmt.Sprintf("tagNum:%d", n)
	if in.Kind == "choice" {
		return s + ",choice"
	}
	return s + more
}

// fillDeep: like fill with full set, and every CHOICE takes its last alternative (the one that nests further).
func (g *valGen) fillDeep(v reflect.Value, p rparams) {
	t := v.Type()
	if v.Kind() == reflect.Struct && t.NumField() > 0 && t.Field(0).Name == "Present" && t != bitStringType {
		n := t.NumField()
		v.Field(0).SetInt(int64(n - 1))
		f := v.Field(n - 1)
		f.Set(reflect.New(f.Type().Elem()))
		g.fillDeep(f.Elem(), parseTag(t.Field(n-1).Tag.Get("ber")))
		return
	}
	switch v.Kind() {
	case reflect.Ptr:
		v.Set(reflect.New(t.Elem()))
		g.fillDeep(v.Elem(), p)
	case reflect.Slice:
		if t.Elem().Kind() == reflect.Uint8 {
			g.fill(v, p, 0)
			return
		}
		s := reflect.MakeSlice(t, 1, 1)
		g.fillDeep(s.Index(0), rparams{})
		v.Set(s)
	case reflect.Struct:
		if t == bitStringType || t.NumField() == 0 {
			g.fill(v, p, 0)
			return
		}
		for i := 0; i < t.NumField(); i++ {
			g.fillDeep(v.Field(i), parseTag(t.Field(i).Tag.Get("ber")))
		}
	default:
		g.fill(v, p, 0)
	}
}

func genFull(t *rapid.T) Case {
	spec := TypeSpec{Reg: rapid.SampledFrom([]string{"CHFRecord", "CHFRecord", "ChargingRecord", "UsedUnitContainer", "MultipleUnitUsage", "PDUSessionChargingInformation", "NetworkFunctionInformation"}).Draw(t, "agg")}
	typ := spec.Build()
	pv := reflect.New(typ)
	params := ""
	if spec.Reg == "CHFRecord" {
		params = "explicit,choice"
	}
	g := &valGen{t: t, full: true}
	g.fill(pv.Elem(), parseTag(params), 0)
	b, _ := json.Marshal(pv.Interface())
	return Case{Type: spec, Params: params, Val: b}
}

func genLongList(t *rapid.T) Case {
	n := rapid.SampledFrom([]int{65535, 65536, 65537, 66000, 70000}).Draw(t, "elements")
	el := TypeSpec{Prim: rapid.SampledFrom([]string{"int", "bool", "null", "enum"}).Draw(t, "elem")}
	if rapid.IntRange(0, 3).Draw(t, "structElem") == 0 {
		el = TypeSpec{Kind: "struct", Fields: []FieldSpec{{Name: "F0", Type: TypeSpec{Prim: "int"}, Tag: "tagNum:0"}}}
	}
	s := TypeSpec{Kind: "slice", Elem: &el}
	params := rapid.SampledFrom([]string{"", "set", "tagNum:2"}).Draw(t, "params")
	switch rapid.IntRange(0, 2).Draw(t, "wrapper") {
	case 1:
		s = TypeSpec{Kind: "list", Fields: []FieldSpec{{Name: "List", Type: s}}}
	case 2:
		s = TypeSpec{Kind: "struct", Fields: []FieldSpec{{Name: "F0", Type: TypeSpec{Prim: "int"}, Tag: "tagNum:0"}, {Name: "F1", Type: s, Tag: "tagNum:1"}}}
		params = ""
	}
	typ := s.Build()
	pv := reflect.New(typ)
	lst := pv.Elem()
	for lst.Kind() == reflect.Struct {
		lst = lst.Field(lst.NumField() - 1)
	}
	vals := reflect.MakeSlice(lst.Type(), n, n)
	for i := 0; i < n; i++ {
		e := vals.Index(i)
		if e.Kind() == reflect.Struct {
			e = e.Field(0)
		}
		switch e.Kind() {
		case reflect.Bool:
			e.SetBool(i%3 == 0 || e.Type() == nullType)
		default:
			e.SetInt(int64(i % 300))
		}
	}
	lst.Set(vals)
	if pv.Elem().Kind() == reflect.Struct && pv.Elem().NumField() == 2 {
		pv.Elem().Field(0).SetInt(7)
	}
	b, _ := json.Marshal(pv.Interface())
	return Case{Type: s, Params: params, Val: b}
}

// genRefused: a complete value of an aggregate schema type in which the members no value of which can be marshalled
// (OBJECT IDENTIFIER, open types) are present too: the codec must refuse it.
func genRefused(t *rapid.T) Case {
	spec := TypeSpec{Reg: rapid.SampledFrom([]string{"CHFRecord", "ChargingRecord", "ChargingRecord", "ManagementExtension", "Diagnostics"}).Draw(t, "agg")}
	typ := spec.Build()
	pv := reflect.New(typ)
	params := ""
	if spec.Reg == "CHFRecord" {
		params = "explicit,choice"
	}
	g := &valGen{t: t, full: true, withUnsupported: true}
	g.fill(pv.Elem(), parseTag(params), 0)
	b, _ := json.Marshal(pv.Interface())
	return Case{Type: spec, Params: params, Val: b}
}

// scaleCase: one case of every class, so that no class is left to chance
type scaleCase struct {
	Wide, Deep, Full, Long []Case
	Refused                []Case // judged in turn with the complete values: refused, then a value that must be accepted
}

func genScale(t *rapid.T) scaleCase {
	var sc scaleCase
	for i := 0; i < 4; i++ {
		sc.Wide = append(sc.Wide, genWide(t))
		sc.Deep = append(sc.Deep, genDeep(t))
	}
	for i := 0; i < h.Scale(12, 40); i++ {
		sc.Full = append(sc.Full, genFull(t))
	}
	sc.Long = append(sc.Long, genLongList(t))
	for i := 0; i < 4; i++ {
		sc.Refused = append(sc.Refused, genRefused(t))
	}
	return sc
}

func judgeScale(j func(Case) *h.Verdict) func(scaleCase) *h.Verdict {
	return func(sc scaleCase) *h.Verdict {
		agg := &h.Verdict{NonTrivial: true}
		run := func(cs []Case, label string) {
			for _, c := range cs {
				v := j(c)
				agg.Labels = append(agg.Labels, v.Labels...)
				agg.Label(label)
				if v.Skipped {
					agg.Label("no-reference:" + label)
				}
				if v.Failed() && !agg.Failed() {
					agg.Sig, agg.Msg = v.Sig, "["+label+": "+c.Type.Name()+" params="+c.Params+" val="+string(truncS(c.Val))+"] "+v.Msg
				}
			}
		}
		run(sc.Wide, "members>=63")
		run(sc.Deep, "nesting>=16")
		// a value the codec must refuse, then complete values of the same types that it must accept
		run(sc.Refused, "refused-value-just-before")
		run(sc.Full, "complete-schema-value")
		run(sc.Long, "list>=65535-elements")
		return agg
	}
}

func TestC04Scale(t *testing.T) { h.Run(t, "C04", "scale", genScale, judgeScale(judgeC04)) }
func TestC05Scale(t *testing.T) { h.Run(t, "C05", "scale", genScale, judgeScale(judgeC05)) }
func TestC16Scale(t *testing.T) { h.Run(t, "C16", "scale", genScale, judgeScale(judgeC16Mut)) }

// Many types: the process marshals (and unmarshals) more than 32768 distinct struct types between two uses of the
// same early types; what the codec does for a type does not depend on how many other types it has seen.
type manyTypesCase struct {
	Probes []Case `json:"probes"`
	N      int    `json:"n"`
}

var typesSeen int

func genManyTypes(t *rapid.T) manyTypesCase {
	mc := manyTypesCase{N: rapid.IntRange(33000, 36000).Draw(t, "types")}
	for i := 0; i < 6; i++ {
		mc.Probes = append(mc.Probes, genFull(t))
	}
	for i := 0; i < 6; i++ {
		mc.Probes = append(mc.Probes, genCaseOf(t, genTypeSpec(t, 0), false))
	}
	return mc
}

func judgeManyTypes(j func(Case) *h.Verdict) func(manyTypesCase) *h.Verdict {
	return func(mc manyTypesCase) *h.Verdict {
		agg := &h.Verdict{NonTrivial: true}
		pass := func(when string) bool {
			for _, c := range mc.Probes {
				v := j(c)
				agg.Labels = append(agg.Labels, v.Labels...)
				if v.Failed() {
					agg.Sig, agg.Msg = v.Sig, "["+when+": "+c.Type.Name()+" params="+c.Params+" val="+string(truncS(c.Val))+"] "+v.Msg
					if when != "first use" {
						agg.Sig = "depends-on-types-seen-before/" + v.Sig
					}
					return false
				}
			}
			return true
		}
		if !pass("first use") {
			return agg
		}
		for i := 0; i < mc.N; i++ {
			typesSeen++
			k := typesSeen
			s := TypeSpec{Kind: "struct", Fields: []FieldSpec{
				{Name: fmt.Sprintf("M%d", k), Type: TypeSpec{Prim: "int"}, Tag: fmt.Sprintf("tagNum:%d", k%40)},
				{Name: "O", Ptr: true, Type: TypeSpec{Prim: "utf8"}, Tag: fmt.Sprintf("tagNum:%d,optional", 40+k%7)}}}
			if k%3 == 0 {
				s.Fields = append(s.Fields, FieldSpec{Name: "B", Type: TypeSpec{Prim: "bool"}, Tag: "tagNum:90"})
			}
			val := fmt.Sprintf(`{"M%d": %d, "O": "t%d"}`, k, k, k)
			if v := j(Case{Type: s, Params: "", Val: json.RawMessage(val)}); v.Failed() {
				agg.Sig, agg.Msg = v.Sig, fmt.Sprintf("[type number %d of the process: %s] %s", k, val, v.Msg)
				return agg
			}
		}
		agg.Label("distinct-types-in-between>32768")
		pass(fmt.Sprintf("used again after %d other types", mc.N))
		return agg
	}
}

func TestC04ManyTypes(t *testing.T) {
	h.Run(t, "C04", "manytypes", genManyTypes, judgeManyTypes(judgeC04))
}
func TestC05ManyTypes(t *testing.T) {
	h.Run(t, "C05", "manytypes", genManyTypes, judgeManyTypes(judgeC05))
}
