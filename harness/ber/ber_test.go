// Engine ber: C04 (encoder well-formed and equal to a reference encoder),
// C05 (decode∘encode = id), C16 (decoder safe on arbitrary bytes).
package ber

import (
	"bytes"
	"encoding/hex"
	"encoding/json"
	"fmt"
	"os"
	"reflect"
	"sort"
	"strconv"
	"strings"
	"testing"
	"time"

	"pgregory.net/rapid"

	"github.com/free5gc/chf/cdr/asn"
	"verifharness/h"
	"verifharness/oracle"
)

type Case struct {
	Type   TypeSpec        `json:"type"`
	Params string          `json:"params"`
	Val    json.RawMessage `json:"val"`
}

func (c Case) value() (reflect.Value, error) {
	t := c.Type.Build()
	pv := reflect.New(t)
	if err := json.Unmarshal(c.Val, pv.Interface()); err != nil {
		return reflect.Value{}, err
	}
	rawOctets(pv.Elem())
	return pv, nil // pointer to the value (the way the processor calls the codec)
}

// rawOctets puts back the octets that the JSON form of a case writes as U+E000 followed by two hex digits
// (string contents that are not valid UTF-8).
func rawOctets(v reflect.Value) {
	switch v.Kind() {
	case reflect.String:
		s := v.String()
		if !strings.Contains(s, "\ue000") || !v.CanSet() {
			return
		}
		var out []byte
		for i := 0; i < len(s); {
			if strings.HasPrefix(s[i:], "\ue000") && i+5 <= len(s) {
				if b, err := strconv.ParseUint(s[i+3:i+5], 16, 8); err == nil {
					out = append(out, byte(b))
					i += 5
					continue
				}
			}
			out = append(out, s[i])
			i++
		}
		v.SetString(string(out))
	case reflect.Ptr, reflect.Interface:
		if !v.IsNil() {
			rawOctets(v.Elem())
		}
	case reflect.Struct:
		for i := 0; i < v.NumField(); i++ {
			rawOctets(v.Field(i))
		}
	case reflect.Slice:
		if v.Type().Elem().Kind() == reflect.Uint8 {
			return
		}
		for i := 0; i < v.Len(); i++ {
			rawOctets(v.Index(i))
		}
	}
}

var regNames = func() []string {
	var out []string
	for k := range registryByName {
		out = append(out, k)
	}
	sort.Strings(out)
	return out
}()

func topParams(t *rapid.T, typ reflect.Type, spec TypeSpec) string {
	isChoice := typ.Kind() == reflect.Struct && typ.NumField() > 0 && typ.Field(0).Name == "Present"
	isSeq := typ.Kind() == reflect.Struct && typ.NumField() > 0 && !isChoice && typ.Field(0).Name != "Value" && typ.Field(0).Name != "List"
	opts := []string{"", "", "", "tagNum:3", "tagNum:31", "tagNum:200,explicit"}
	if isChoice {
		opts = []string{"explicit,choice", "explicit,choice", "", "tagNum:5,choice"}
	}
	if isSeq {
		opts = append(opts, "set")
	}
	if spec.Prim == "string" {
		opts = []string{"utf8", "ia5", "graphic", "utf8,tagNum:4"}
	}
	if spec.Prim == "utf8" || spec.Prim == "ia5" || spec.Prim == "graphic" {
		opts = []string{"", "", "utf8", "ia5", "graphic", "tagNum:3", "tagNum:3,ia5"} // a typed string, with and without a string kind (also another one)
	}
	if typ.Kind() == reflect.Slice && typ.Elem().Kind() != reflect.Uint8 {
		opts = append(opts, "set", "set", "tagNum:2,set")
	}
	return rapid.SampledFrom(opts).Draw(t, "params")
}

func genCaseOf(t *rapid.T, spec TypeSpec, errcls bool) Case {
	typ := spec.Build()
	pv := reflect.New(typ)
	params := topParams(t, typ, spec)
	g := &valGen{t: t, budget: rapid.SampledFrom([]int{0, 2, 6, 12, 30, 80}).Draw(t, "budget"), big: rapid.IntRange(0, 9).Draw(t, "big") == 0, errcls: errcls}
	g.fill(pv.Elem(), parseTag(params), 0)
	b, err := json.Marshal(pv.Interface())
	if err != nil {
		panic(err)
	}
	return Case{Type: spec, Params: params, Val: b}
}

func genSpec(t *rapid.T) TypeSpec {
	switch rapid.IntRange(0, 9).Draw(t, "source") {
	case 0, 1, 2, 3, 4:
		return TypeSpec{Reg: rapid.SampledFrom(regNames).Draw(t, "reg")}
	case 5:
		// the aggregates the CHF really writes
		return TypeSpec{Reg: rapid.SampledFrom([]string{"CHFRecord", "ChargingRecord", "UsedUnitContainer", "MultipleUnitUsage", "PDUAddress", "PDUSessionChargingInformation", "NetworkFunctionInformation"}).Draw(t, "agg")}
	case 6:
		p := genPrim(t)
		if rapid.IntRange(0, 5).Draw(t, "plainString") == 0 {
			p = "string"
		}
		return TypeSpec{Prim: p}
	default:
		return genTypeSpec(t, 0)
	}
}

func genCase(t *rapid.T) Case {
	return genCaseOf(t, genSpec(t), rapid.IntRange(0, 7).Draw(t, "errcls") == 0)
}
func genValidCase(t *rapid.T) Case {
	return genCaseOf(t, genSpec(t), false)
}

func errClassName(err error) string {
	switch err {
	case errOID:
		return "oid"
	case errOpen:
		return "opentype"
	case errPresent:
		return "present-out-of-range"
	case errNilMember:
		return "nil-nonoptional"
	}
	return err.Error()
}

func labelFeats(v *h.Verdict, c Case, e *refEnc) {
	if c.Type.Reg != "" {
		v.Label("type:" + c.Type.Reg)
	} else {
		v.Label("type:" + c.Type.Name())
	}
	for _, f := range []string{"negative-int", "bitstring%8==0", "len>=128", "len>=65536", "tag>=31", "all-optional-absent", "choice-under-tag", "explicit-tag", "untagged-member", "untagged-alternative"} {
		if e.feats[f] {
			v.NT(f)
		}
	}
}

// ------------------------------------------------------------------- C04

func judgeC04(c Case) *h.Verdict {
	v := &h.Verdict{}
	pv, err := c.value()
	if err != nil {
		return v.Failf("HARNESS-case", "%v", err)
	}
	e := &refEnc{}
	ref, referr := e.encode(pv, parseTag(c.Params))
	if referr == errAmbiguous || referr == errUnsupKind || referr == errNoRef {
		v.Skipped = true
		return v
	}
	labelFeats(v, c, e)
	var got []byte
	var gerr error
	if p, val, st := h.Safely(func() { got, gerr = asn.BerMarshalWithParams(pv.Interface(), c.Params) }); p {
		cls := "wellformed"
		if referr != nil {
			cls = errClassName(referr)
			v.NT("errclass:" + cls)
		}
		return v.Failf("marshal-panic/"+h.PanicClass(val)+"/"+cls, "BerMarshalWithParams panicked (%s value): %v\n%s", cls, val, st)
	}
	if referr != nil {
		v.NT("errclass:" + errClassName(referr))
		if gerr == nil {
			return v.Failf("no-error/"+errClassName(referr), "marshal returned %x and no error for an ill-formed/unsupported value (%s)", trunc(got), errClassName(referr))
		}
		return v
	}
	if gerr != nil {
		return v.Failf("unexpected-error", "marshal returned error %q for a well-formed value; reference encoding %x", gerr, trunc(ref))
	}
	if _, werr := oracle.WalkTLV(got); werr != nil {
		te := werr.(*oracle.TLVErr)
		return v.Failf("malformed/"+te.What, "output is not a well-formed BER element: %v; got %x, reference %x", werr, trunc(got), trunc(ref))
	}
	if !bytes.Equal(got, ref) {
		off := 0
		for off < len(got) && off < len(ref) && got[off] == ref[off] {
			off++
		}
		return v.Failf("differs/"+e.locate(off), "differs from the reference encoder at offset %d (%s): got %x, reference %x", off, e.locate(off), window(got, off), window(ref, off))
	}
	return v
}

func trunc(b []byte) []byte {
	if len(b) > 64 {
		return b[:64]
	}
	return b
}
func window(b []byte, off int) []byte {
	lo, hi := off-8, off+8
	if lo < 0 {
		lo = 0
	}
	if hi > len(b) {
		hi = len(b)
	}
	if lo > hi {
		lo = hi
	}
	return b[lo:hi]
}

func TestC04Encoder(t *testing.T) { h.Run(t, "C04", "encoder", genCase, judgeC04) }

// every registry type at least once per run (the all-optional-absent, minimal
// value and a generated value of each): no type is left to chance.
type regCase struct {
	Cases []Case `json:"cases"`
}

func genAllTypes(t *rapid.T) regCase {
	var rc regCase
	for _, n := range regNames {
		rc.Cases = append(rc.Cases, genCaseOf(t, TypeSpec{Reg: n}, false))
	}
	return rc
}

func judgeMany(j func(Case) *h.Verdict) func(regCase) *h.Verdict {
	return func(rc regCase) *h.Verdict {
		agg := &h.Verdict{}
		for _, c := range rc.Cases {
			v := j(c)
			agg.Labels = append(agg.Labels, v.Labels...)
			agg.NonTrivial = agg.NonTrivial || v.NonTrivial
			if v.Failed() && !agg.Failed() {
				agg.Sig, agg.Msg = v.Sig, "["+c.Type.Name()+" params="+c.Params+" val="+string(truncS(c.Val))+"] "+v.Msg
			}
		}
		return agg
	}
}
func truncS(b []byte) []byte {
	if len(b) > 400 {
		return b[:400]
	}
	return b
}

// Headers: every combination of a wide tag number and a long length on one element (identifier and length
// octets together take up to ten octets), on a primitive and on a constructed element.
func TestC04Headers(t *testing.T) {
	r := h.NewRecorder("C04", "headers")
	lens := []int{0, 1, 127, 128, 255, 256, 65535, 65536}
	if h.Thorough() {
		lens = append(lens, 1<<24-1, 1<<24)
	}
	h.Enum(t, r, func(yield func(Case) bool) {
		// contents that need four length octets, held by one element or accumulated by a list of 1024 members
		for _, n := range []int{1<<24 - 1, 1 << 24, 1<<24 + 1} {
			v, _ := json.Marshal([]byte(strings.Repeat("y", n)))
			if !yield(Case{Type: TypeSpec{Prim: "octets"}, Params: "", Val: v}) {
				return
			}
		}
		{
			el := TypeSpec{Prim: "octets"}
			var items [][]byte
			for i := 0; i < 1024; i++ {
				items = append(items, []byte(strings.Repeat("z", 16384)))
			}
			v, _ := json.Marshal(map[string]interface{}{"F0": items})
			if !yield(Case{Type: TypeSpec{Kind: "struct", Fields: []FieldSpec{{Name: "F0", Type: TypeSpec{Kind: "slice", Elem: &el}, Tag: "tagNum:1"}}}, Params: "", Val: v}) {
				return
			}
		}
		for _, tag := range []uint64{30, 31, 127, 128, 16383, 16384, 1<<21 - 1, 1 << 21, 1<<28 - 1, 1 << 28, 1<<35 - 1} {
			for _, n := range lens {
				content := strings.Repeat("x", n)
				for _, form := range []string{"octets", "utf8", "seq"} {
					var c Case
					switch form {
					case "octets":
						v, _ := json.Marshal([]byte(content))
						c = Case{Type: TypeSpec{Prim: "octets"}, Params: fmt.Sprintf("tagNum:%d", tag), Val: v}
					case "utf8":
						v, _ := json.Marshal(content)
						c = Case{Type: TypeSpec{Prim: "string"}, Params: fmt.Sprintf("utf8,tagNum:%d", tag), Val: v}
					default: // a SEQUENCE whose only member carries the wide tag and the long content
						v, _ := json.Marshal(map[string]interface{}{"F0": []byte(content)})
						c = Case{Type: TypeSpec{Kind: "struct", Fields: []FieldSpec{{Name: "F0", Type: TypeSpec{Prim: "octets"}, Tag: fmt.Sprintf("tagNum:%d", tag)}}}, Params: "", Val: v}
					}
					if !yield(c) {
						return
					}
				}
			}
		}
	}, func(c Case) *h.Verdict {
		v := judgeC04(c)
		v.NonTrivial = true
		v.Label("header-enumeration")
		return v
	}, true)
}

func TestC04AllTypes(t *testing.T) { h.Run(t, "C04", "alltypes", genAllTypes, judgeMany(judgeC04)) }

// ------------------------------------------------------------------- C05

// equiv: value equality with nil==empty for byte strings and non-optional
// slices, NULL present == true (the wire cannot tell those apart).
func equiv(a, b reflect.Value, optional bool) (string, bool) {
	if a.Type() != b.Type() {
		return "type", false
	}
	t := a.Type()
	switch t {
	case nullType:
		return "", true
	case bitStringType:
		x, y := a.Interface().(asn.BitString), b.Interface().(asn.BitString)
		if x.BitLength != y.BitLength || !bytes.Equal(x.Bytes, y.Bytes) {
			return "BitString", false
		}
		return "", true
	}
	switch a.Kind() {
	case reflect.Ptr, reflect.Interface:
		if a.IsNil() != b.IsNil() {
			return "nil-ness of " + t.String(), false
		}
		if a.IsNil() {
			return "", true
		}
		return equiv(a.Elem(), b.Elem(), false)
	case reflect.Slice:
		if optional && a.IsNil() != b.IsNil() {
			return "presence of optional " + t.String(), false
		}
		if a.Len() != b.Len() {
			return "length of " + t.String(), false
		}
		for i := 0; i < a.Len(); i++ {
			if w, ok := equiv(a.Index(i), b.Index(i), false); !ok {
				return w, false
			}
		}
		return "", true
	case reflect.Struct:
		for i := 0; i < t.NumField(); i++ {
			fp := parseTag(t.Field(i).Tag.Get("ber"))
			if w, ok := equiv(a.Field(i), b.Field(i), fp.optional); !ok {
				return t.Name() + "." + t.Field(i).Name + ": " + w, false
			}
		}
		return "", true
	}
	if !reflect.DeepEqual(a.Interface(), b.Interface()) {
		return fmt.Sprintf("%s %v != %v", t, a.Interface(), b.Interface()), false
	}
	return "", true
}

// kindOfDiff turns an equiv path into a coarse, stable signature.
func kindOfDiff(w string) string {
	switch {
	case strings.Contains(w, "BitString"):
		return "bitstring"
	case strings.Contains(w, "nil-ness"):
		return "presence"
	case strings.Contains(w, "presence of optional"):
		return "optional-slice"
	case strings.Contains(w, "length of"):
		return "slice-length"
	case strings.Contains(w, "Present"):
		return "choice-selection"
	case strings.Contains(w, "int") || strings.Contains(w, "Enumerated"):
		return "integer"
	case strings.Contains(w, "String") || strings.Contains(w, "string"):
		return "string"
	case strings.Contains(w, "bool"):
		return "bool"
	}
	return "other"
}

func judgeC05(c Case) *h.Verdict {
	v := &h.Verdict{}
	pv, err := c.value()
	if err != nil {
		return v.Failf("HARNESS-case", "%v", err)
	}
	e := &refEnc{}
	_, referr := e.encode(pv, parseTag(c.Params))
	if referr == errAmbiguous || referr == errUnsupKind {
		v.Skipped = true
		return v
	}
	if referr == errNoRef {
		referr = nil // no reference bytes, but the round trip is demanded all the same
		v.Label("set-of-constructed-elements")
	} else {
		labelFeats(v, c, e)
	}
	var enc []byte
	var merr error
	if p, _, _ := h.Safely(func() { enc, merr = asn.BerMarshalWithParams(pv.Interface(), c.Params) }); p {
		v.Label("marshal-panic(reported under C04)")
		return v
	}
	if referr != nil {
		// unsupported / ill-formed construct: an error on either side, never a wrong value or a crash
		v.NT("errclass:" + errClassName(referr))
		if merr != nil {
			return v
		}
		out := reflect.New(pv.Type().Elem())
		var uerr error
		if p, val, st := h.Safely(func() { uerr = asn.UnmarshalWithParams(enc, out.Interface(), c.Params) }); p {
			return v.Failf("unmarshal-panic/"+h.PanicClass(val)+"/"+errClassName(referr), "unmarshal panicked: %v\n%s", val, st)
		}
		if uerr == nil {
			return v.Failf("no-error/"+errClassName(referr), "neither marshal nor unmarshal reported the unsupported construct (%s)", errClassName(referr))
		}
		return v
	}
	if merr != nil {
		v.Label("marshal-error(reported under C04)")
		return v
	}
	// the process has decoded damaged input of this type just before (a length octet inside pushed beyond its
	// container, the input cut short): whatever those decodes did (C16 judges them), they are over, and the round
	// trip that follows must not be affected
	var pos []elemPos
	tlvPositions(enc, 0, &pos)
	damaged := 0
	for k := len(pos) - 1; k >= 1 && damaged < 3; k-- {
		if pos[k].lenOcts == 1 && enc[pos[k].lenOff] != 0x7f {
			in := append([]byte{}, enc...)
			in[pos[k].lenOff] = 0x7f
			decodeOne(pv.Type().Elem(), c.Params, in)
			damaged++
		}
	}
	if len(enc) > 2 {
		decodeOne(pv.Type().Elem(), c.Params, enc[:len(enc)-1])
	}
	if damaged > 0 {
		v.Label("damaged-input-decoded-just-before")
	}
	out := reflect.New(pv.Type().Elem())
	var uerr error
	if p, val, st := h.Safely(func() { uerr = asn.UnmarshalWithParams(enc, out.Interface(), c.Params) }); p {
		return v.Failf("unmarshal-panic/"+h.PanicClass(val)+"/"+h.PanicFrame(st), "unmarshal of the codec's own output panicked: %v (encoding %x)\n%s", val, trunc(enc), st)
	}
	if uerr != nil {
		return v.Failf("unmarshal-error/"+sigWord(uerr.Error()), "unmarshal of the codec's own output %x failed: %v", trunc(enc), uerr)
	}
	if w, ok := equiv(pv.Elem(), out.Elem(), false); !ok {
		feat := ""
		for _, f := range []string{"explicit-tag", "choice-under-tag"} {
			if e.feats[f] {
				feat += "/" + f
			}
		}
		return v.Failf("roundtrip/"+kindOfDiff(w)+feat, "decode(encode(v)) != v at %s (encoding %x)", w, trunc(enc))
	}
	return v
}

func sigWord(s string) string {
	s = strings.ToLower(s)
	out := []rune{}
	for _, r := range s {
		if r >= 'a' && r <= 'z' {
			out = append(out, r)
		} else if len(out) > 0 && out[len(out)-1] != '-' {
			out = append(out, '-')
		}
		if len(out) > 28 {
			break
		}
	}
	return strings.Trim(string(out), "-")
}

func TestC05RoundTrip(t *testing.T) { h.Run(t, "C05", "roundtrip", genCase, judgeC05) }
func TestC05AllTypes(t *testing.T)  { h.Run(t, "C05", "alltypes", genAllTypes, judgeMany(judgeC05)) }

// Exhaustive integers: all values of up to 2 (quick) / 3 (thorough) content
// octets plus every 2^k, 2^k±1 of both signs, as int64, Enumerated, and an
// int64 inside a tagged SEQUENCE member.
type intCase struct {
	X    int64  `json:"x"`
	Form string `json:"form"`
}

type intInSeq struct {
	A int64 `ber:"tagNum:0"`
	B *int  `ber:"tagNum:1,optional"`
}

func judgeInt(c intCase) *h.Verdict {
	v := &h.Verdict{}
	if c.X < 0 {
		v.NT("negative")
	} else if c.X > 127 {
		v.NT("multi-octet")
	}
	var in, out interface{}
	switch c.Form {
	case "int64":
		x := c.X
		in, out = &x, new(int64)
	case "enum":
		x := asn.Enumerated(c.X)
		in, out = &x, new(asn.Enumerated)
	default:
		y := int(c.X)
		in, out = &intInSeq{A: c.X, B: &y}, new(intInSeq)
	}
	var enc []byte
	var err error
	if p, val, _ := h.Safely(func() { enc, err = asn.BerMarshal(in) }); p || err != nil {
		return v.Failf("int-marshal-fails", "marshal %d: %v %v", c.X, val, err)
	}
	if p, val, _ := h.Safely(func() { err = asn.Unmarshal(enc, out) }); p || err != nil {
		return v.Failf("int-unmarshal-fails", "unmarshal %x: %v %v", enc, val, err)
	}
	var got int64
	switch o := out.(type) {
	case *int64:
		got = *o
	case *asn.Enumerated:
		got = int64(*o)
	case *intInSeq:
		got = o.A
		if o.B == nil || int64(*o.B) != c.X {
			return v.Failf("roundtrip/integer", "optional int member: %d encoded %x decoded %v", c.X, enc, o.B)
		}
	}
	if got != c.X {
		return v.Failf("roundtrip/integer", "%s %d encoded as %x decodes to %d", c.Form, c.X, enc, got)
	}
	// minimal two's complement, independent of the reference encoder
	cont := enc[2:]
	if c.Form == "seq" {
		cont = enc[4 : 4+int(enc[3])]
	}
	if !bytes.Equal(cont, minimalInt(c.X)) {
		return v.Failf("int-content", "%d content octets %x, minimal two's complement is %x", c.X, cont, minimalInt(c.X))
	}
	return v
}

func TestC05Ints(t *testing.T) {
	r := h.NewRecorder("C05", "ints")
	shard, _ := strconv.Atoi(os.Getenv("VERIF_SHARD"))
	nsh, _ := strconv.Atoi(os.Getenv("VERIF_NSHARDS"))
	if nsh < 1 {
		nsh = 1
	}
	lim := int64(1 << 15)
	if h.Thorough() {
		lim = 1 << 23
	}
	h.Enum(t, r, func(yield func(intCase) bool) {
		for _, form := range []string{"int64", "enum", "seq"} {
			for x := -lim + int64(shard); x < lim; x += int64(nsh) {
				if !yield(intCase{x, form}) {
					return
				}
			}
			if shard == 0 {
				for _, x := range intPool {
					if !yield(intCase{x, form}) {
						return
					}
				}
			}
		}
	}, judgeInt, true)
}

// ------------------------------------------------------------------- C16

type decCase struct {
	Type   TypeSpec `json:"type"`
	Params string   `json:"params"`
	Input  string   `json:"input"`  // hex
	Expect string   `json:"expect"` // "any" or "error"
	Class  string   `json:"class"`
}

var decodes int

// decodeOne hands the input over with capacity == length at the very end of
// its own allocation, under recover and a watchdog.
func decodeOne(typ reflect.Type, params string, in []byte) (err error, panicked bool, pval interface{}, stack string) {
	buf := make([]byte, len(in))
	copy(buf, in)
	buf = buf[:len(in):len(in)]
	out := reflect.New(typ)
	decodes++
	done := make(chan struct{})
	go func() {
		select {
		case <-done:
		case <-time.After(20 * time.Second):
			fmt.Fprintf(os.Stderr, "WATCHDOG: decode of %x into %s (params %q) did not terminate within 20 s\n", in, typ, params)
			if d := os.Getenv("VERIF_OUT"); d != "" {
				_ = os.WriteFile(d+"/C16.hang."+os.Getenv("VERIF_SHARD"), []byte(fmt.Sprintf("%x %s %q", in, typ, params)), 0o644)
			}
			os.Exit(3)
		}
	}()
	panicked, pval, stack = h.Safely(func() { err = asn.UnmarshalWithParams(buf, out.Interface(), params) })
	close(done)
	return
}

func judgeDec(c decCase) *h.Verdict {
	v := &h.Verdict{}
	in, err := hex.DecodeString(c.Input)
	if err != nil {
		return v.Failf("HARNESS-case", "%v", err)
	}
	typ := c.Type.Build()
	derr, p, val, st := decodeOne(typ, c.Params, in)
	v.Label("class:" + c.Class)
	if c.Expect == "error" || len(in) >= 2 {
		v.NonTrivial = true
	}
	if p {
		return v.Failf("panic/"+h.PanicClass(val)+"/"+h.PanicFrame(st), "unmarshal of %x into %s (params %q) panicked: %v\n%s", in, typ, c.Params, val, st)
	}
	if c.Expect == "error" && derr == nil {
		return v.Failf("no-error/"+c.Class, "unmarshal of %x into %s (params %q) returned no error (class %s)", in, typ, c.Params, c.Class)
	}
	return v
}

var primTargets = []string{"int", "int32", "int64", "bool", "enum", "bitstring", "octets", "null", "utf8", "ia5"}

func targetSpecs() []TypeSpec {
	var out []TypeSpec
	for _, p := range primTargets {
		out = append(out, TypeSpec{Prim: p})
	}
	intSlice := TypeSpec{Kind: "slice", Elem: &TypeSpec{Prim: "int"}}
	out = append(out, intSlice)
	out = append(out, TypeSpec{Kind: "struct", Fields: []FieldSpec{{Name: "F0", Tag: "tagNum:0", Type: TypeSpec{Prim: "int"}}, {Name: "F1", Tag: "tagNum:1,optional", Ptr: true, Type: TypeSpec{Prim: "bitstring"}}}})
	out = append(out, TypeSpec{Kind: "choice", Fields: []FieldSpec{{Name: "A0", Tag: "tagNum:0", Ptr: true, Type: TypeSpec{Prim: "bool"}}, {Name: "A1", Tag: "tagNum:1", Ptr: true, Type: intSlice}}})
	for _, n := range regNames {
		out = append(out, TypeSpec{Reg: n})
	}
	return out
}

var representatives = map[string]bool{"CHFRecord": true, "ChargingRecord": true, "UsedUnitContainer": true, "PDUAddress": true,
	"IPAddress": true, "ManagementExtension": true, "Trigger": true, "SubscriptionID": true, "Diagnostics": true, "NetworkFunctionInformation": true}

func universalOf(s TypeSpec) int {
	switch s.Prim {
	case "int", "int32", "int64":
		return 2
	case "bool":
		return 1
	case "enum":
		return 10
	case "bitstring":
		return 3
	case "octets":
		return 4
	case "null":
		return 5
	case "utf8":
		return 12
	case "ia5":
		return 22
	}
	return -1
}

// expectation for a short exhaustive input, from the property text only.
func expectShort(s TypeSpec, params string, in []byte) (string, string) {
	if len(in) == 0 {
		return "error", "empty"
	}
	if len(in) == 1 {
		return "error", "truncated-header"
	}
	// len >= 2: identifier + (start of) length
	if in[0]&0x1f != 0x1f {
		l := in[1]
		if l < 0x80 && int(l) > len(in)-2 {
			return "error", "length-exceeds-input"
		}
		if l > 0x80 && int(l&0x7f) > len(in)-2 {
			return "error", "truncated-length"
		}
		if l == 0 && params == "" {
			switch s.Prim {
			case "int", "int32", "int64", "bool", "enum", "bitstring":
				return "error", "zero-length-primitive"
			}
		}
		if u := universalOf(s); u >= 0 && params == "" && in[0]>>6 == 0 && int(in[0]&0x1f) != u {
			return "error", "wrong-universal-tag"
		}
	} else if len(in) == 2 {
		return "error", "truncated-header"
	}
	return "any", "short-other"
}

func TestC16Exhaustive(t *testing.T) {
	r := h.NewRecorder("C16", "exhaustive")
	shard, _ := strconv.Atoi(os.Getenv("VERIF_SHARD"))
	nsh, _ := strconv.Atoi(os.Getenv("VERIF_NSHARDS"))
	if nsh < 1 {
		nsh = 1
	}
	specs := targetSpecs()
	h.Enum(t, r, func(yield func(decCase) bool) {
		for i, s := range specs {
			if i%nsh != shard {
				continue
			}
			rep := s.Reg == "" || representatives[s.Reg]
			maxLen := 1
			if rep {
				maxLen = 2
			}
			if h.Thorough() {
				maxLen = 2
				if rep {
					maxLen = 3
				}
			}
			params := ""
			if s.Reg == "CHFRecord" {
				params = "explicit,choice"
			}
			for n := 0; n <= maxLen; n++ {
				in := make([]byte, n)
				total := 1 << (8 * uint(n))
				for k := 0; k < total; k++ {
					for j := 0; j < n; j++ {
						in[j] = byte(k >> (8 * uint(n-1-j)))
					}
					exp, cls := expectShort(s, params, in)
					if !yield(decCase{s, params, hex.EncodeToString(in), exp, cls}) {
						return
					}
				}
			}
		}
	}, judgeDec, true)
	r.Extra("decodes", float64(decodes))
}

// Mutations of valid encodings.  The case is a (type, params, value); the
// judge derives the inputs deterministically from the reference encoding:
// every proper prefix, single-bit flips of the first 16 and last 4 octets,
// each length octet replaced by hostile values, each identifier octet
// replaced by hostile values, declared lengths pushed beyond the input.
type elemPos struct{ idOff, lenOff, lenOcts, contentOff, contentLen int }

func tlvPositions(b []byte, base int, out *[]elemPos) {
	p := 0
	for p < len(b) {
		start := p
		constructed := b[p]&0x20 != 0
		tagIsHigh := b[p]&0x1f == 0x1f
		p++
		if tagIsHigh {
			for p < len(b) && b[p]&0x80 != 0 {
				p++
			}
			p++
		}
		if p >= len(b) {
			return
		}
		lenOff := p
		l := int(b[p])
		n := 1
		if l >= 0x80 {
			k := l & 0x7f
			l = 0
			for i := 0; i < k && p+1+i < len(b); i++ {
				l = l<<8 | int(b[p+1+i])
			}
			n = 1 + k
		}
		p += n
		if p+l > len(b) {
			return
		}
		*out = append(*out, elemPos{base + start, base + lenOff, n, base + p, l})
		if constructed {
			tlvPositions(b[p:p+l], base+p, out)
		}
		p += l
	}
}

func judgeC16Mut(c Case) *h.Verdict {
	v := &h.Verdict{}
	pv, err := c.value()
	if err != nil {
		return v.Failf("HARNESS-case", "%v", err)
	}
	e := &refEnc{}
	ref, referr := e.encode(pv, parseTag(c.Params))
	if referr != nil {
		v.Skipped = true
		return v
	}
	labelFeats(v, c, e)
	v.NonTrivial = true
	typ := pv.Type().Elem()
	try := func(in []byte, expect, class string) bool {
		derr, p, val, st := decodeOne(typ, c.Params, in)
		v.Label("class:" + class)
		if p {
			v.Failf("panic/"+h.PanicClass(val)+"/"+h.PanicFrame(st), "unmarshal of %x (%s of a valid %s encoding, params %q) panicked: %v\n%s", trunc(in), class, typ, c.Params, val, st)
			return false
		}
		if expect == "error" && derr == nil {
			v.Failf("no-error/"+class, "unmarshal of %x (%s of valid %s encoding %x, params %q) returned no error", trunc(in), class, typ, trunc(ref), c.Params)
			return false
		}
		return true
	}
	// the valid encoding itself must not panic
	if !try(ref, "any", "valid") {
		return v
	}
	// every proper prefix (all for short encodings; all of the first 300 and last 40 octets otherwise)
	heavy := len(ref) > 100000 // (tens of thousands of elements: every decode is long)
	for k := 0; k < len(ref); k++ {
		if len(ref) > 400 && k > 300 && k < len(ref)-40 || heavy && k > 40 && k < len(ref)-12 {
			continue
		}
		cls := "prefix"
		if k == 0 {
			cls = "empty"
		}
		if !try(ref[:k], "error", cls) {
			return v
		}
	}
	mut := func(off int, b byte, class string, expect string) bool {
		if off < 0 || off >= len(ref) || ref[off] == b {
			return true
		}
		in := append([]byte{}, ref...)
		in[off] = b
		return try(in, expect, class)
	}
	for off := 0; off < len(ref); off++ {
		if off >= 16 && off < len(ref)-4 {
			continue
		}
		for bit := uint(0); bit < 8; bit++ {
			if !mut(off, ref[off]^(1<<bit), "bitflip", "any") {
				return v
			}
		}
	}
	var pos []elemPos
	tlvPositions(ref, 0, &pos)
	if len(pos) > 60 {
		pos = append(pos[:40], pos[len(pos)-20:]...)
	}
	if heavy {
		pos = append(pos[:6:6], pos[len(pos)-4:]...)
	}
	for _, ep := range pos {
		for _, b := range []byte{0, 0x7f, 0x80, 0x81, 0x82, 0x83, 0x84, 0x88, 0xff} {
			if !mut(ep.lenOff, b, "length-octet", "any") {
				return v
			}
		}
		for _, b := range []byte{0x1f, 0x3f, 0xbf, 0xff, 0x00} {
			if !mut(ep.idOff, b, "identifier-octet", "any") {
				return v
			}
		}
		// declared length one beyond what the input holds, at this level
		avail := len(ref) - ep.contentOff
		if ep.lenOcts == 1 && avail+1 < 128 {
			in := append([]byte{}, ref...)
			in[ep.lenOff] = byte(avail + 1)
			if !try(in, "error", "length-exceeds-input") {
				return v
			}
		}
	}
	// one more element after the last member of the outermost constructed value (an extension addition, or the last
	// member sent twice): inside the container, its length adjusted
	if len(pos) > 1 && ref[pos[0].idOff]&0x20 != 0 {
		top := pos[0]
		var last *elemPos
		cur := top.contentOff
		for i := range pos[1:] {
			ep := pos[1+i]
			if ep.idOff == cur {
				last = &pos[1+i]
				cur = ep.contentOff + ep.contentLen
			}
		}
		if last != nil && cur == top.contentOff+top.contentLen {
			dup := ref[last.idOff : last.contentOff+last.contentLen]
			for _, extra := range [][]byte{dup, {0x9f, 0x7f, 0x01, 0x00}, {0x05, 0x00}} {
				content := append(append([]byte{}, ref[top.contentOff:top.contentOff+top.contentLen]...), extra...)
				in := append([]byte{}, ref[top.idOff:top.lenOff]...)
				n := len(content)
				if n < 128 {
					in = append(in, byte(n))
				} else {
					var tmp []byte
					for l := n; l > 0; l >>= 8 {
						tmp = append([]byte{byte(l)}, tmp...)
					}
					in = append(append(in, 0x80|byte(len(tmp))), tmp...)
				}
				in = append(in, content...)
				if !try(in, "any", "element-after-last-member") {
					return v
				}
			}
		}
	}
	// the valid encoding decoded into a target that is not fresh: its list members (at the top and one level down)
	// are empty with spare capacity, as after a reset with [:0] of a value decoded into before
	{
		out := reflect.New(typ)
		spare := func(x reflect.Value) {
			if x.Kind() == reflect.Slice && x.Type().Elem().Kind() != reflect.Uint8 && x.CanSet() {
				x.Set(reflect.MakeSlice(x.Type(), 0, 8))
			}
		}
		spare(out.Elem())
		if out.Elem().Kind() == reflect.Struct {
			for i := 0; i < out.Elem().NumField(); i++ {
				spare(out.Elem().Field(i))
			}
		}
		var derr error
		p, val, st := h.Safely(func() { derr = asn.UnmarshalWithParams(append([]byte{}, ref...), out.Interface(), c.Params) })
		v.Label("class:target-not-fresh")
		if p {
			return v.Failf("panic/"+h.PanicClass(val)+"/"+h.PanicFrame(st), "unmarshal of the valid %s encoding %x (params %q) into a target whose lists are empty with spare capacity panicked: %v\n%s", typ, trunc(ref), c.Params, val, st)
		}
		_ = derr
	}
	// identifiers that name the right number in the wrong way: the number plus 2^64 (ten base-128 digits: a decoder
	// that accumulates in 64 bits sees the member's own number), and the member's number under the APPLICATION or
	// PRIVATE class.  Tried on the outermost element and on each of its direct members when those are context-tagged.
	if len(pos) > 0 {
		top := pos[0]
		var targets []elemPos
		targets = append(targets, top)
		if ref[top.idOff]&0x20 != 0 {
			cur := top.contentOff
			for _, ep := range pos[1:] {
				if ep.idOff == cur {
					targets = append(targets, ep)
					cur = ep.contentOff + ep.contentLen
				}
			}
		}
		if len(targets) > 12 {
			targets = targets[:12]
		}
		encLen := func(n int) []byte {
			if n < 128 {
				return []byte{byte(n)}
			}
			var tmp []byte
			for l := n; l > 0; l >>= 8 {
				tmp = append([]byte{byte(l)}, tmp...)
			}
			return append([]byte{0x80 | byte(len(tmp))}, tmp...)
		}
		rebuild := func(ep elemPos, newID []byte) []byte {
			if ep == top {
				return append(append([]byte{}, newID...), ref[top.lenOff:]...)
			}
			content := append([]byte{}, ref[top.contentOff:ep.idOff]...)
			content = append(content, newID...)
			content = append(content, ref[ep.lenOff:top.contentOff+top.contentLen]...)
			out := append([]byte{}, ref[top.idOff:top.lenOff]...)
			out = append(out, encLen(len(content))...)
			out = append(out, content...)
			return append(out, ref[top.contentOff+top.contentLen:]...)
		}
		for _, ep := range targets {
			id := ref[ep.idOff:ep.lenOff]
			if id[0]&0xc0 != 0x80 {
				continue // not context-tagged
			}
			// the tag number
			num := uint64(id[0] & 0x1f)
			if num == 0x1f {
				num = 0
				for _, b := range id[1:] {
					num = num<<7 | uint64(b&0x7f)
				}
			}
			// number + 2^64 = 2 x 128^9 + number
			digits := []byte{2, 0, 0, 0, 0, 0, 0, 0, 0, 0}
			for i, n := 9, num; i >= 0 && n > 0; i, n = i-1, n>>7 {
				digits[i] += byte(n & 0x7f)
			}
			long := []byte{id[0] | 0x1f}
			for i, d := range digits {
				if i < len(digits)-1 {
					d |= 0x80
				}
				long = append(long, d)
			}
			if !try(rebuild(ep, long), "error", "tag-number-plus-2^64") {
				return v
			}
			for _, class := range []byte{0x40, 0xc0} {
				other := append([]byte{}, id...)
				other[0] = other[0]&0x3f | class
				if !try(rebuild(ep, other), "error", "member-number-under-other-class") {
					return v
				}
			}
		}
	}
	// zero-length content for the primitive targets
	if c.Params == "" {
		switch c.Type.Prim {
		case "int", "int32", "int64", "bool", "enum", "bitstring":
			if !try([]byte{ref[0], 0}, "error", "zero-length-primitive") {
				return v
			}
			// ... also when further octets follow the empty element
			if !try([]byte{ref[0], 0, 0}, "error", "zero-length-primitive") || !try([]byte{ref[0], 0, 1, 0xff}, "error", "zero-length-primitive") {
				return v
			}
		}
		if u := universalOf(c.Type); u >= 0 {
			for _, wrong := range []byte{1, 2, 3, 4, 5, 10, 12, 22, 0x30} {
				if int(wrong) == u {
					continue
				}
				in := append([]byte{}, ref...)
				in[0] = wrong
				if !try(in, "error", "wrong-universal-tag") {
					return v
				}
			}
		}
	}
	return v
}

func TestC16Mutations(t *testing.T) {
	r := h.NewRecorder("C16", "mutations")
	h.RunWith(t, r, genValidCase, judgeC16Mut)
}

// ---------------------------------------------------------- oracle self-tests

// The reference encoder must reproduce the literals of the repository's own
// TestMarshal (copied here as data: value constructors + expected hex).
func TestSelfReferenceEncoder(t *testing.T) {
	type intStruct struct {
		A int `ber:"tagNum:0"`
	}
	type twoIntStruct struct {
		A int `ber:"tagNum:0"`
		B int `ber:"tagNum:1"`
	}
	type nestedStruct struct {
		A intStruct `ber:"tagNum:0,set"`
		B intStruct `ber:"tagNum:1,seq"`
	}
	type choiceTest struct {
		Present int
		A       *int           `ber:"tagNum:0"`
		B       *asn.BitString `ber:"tagNum:1"`
		C       *intStruct     `ber:"tagNum:2,seq"`
		D       *int           `ber:"tagNum:32"`
		E       *int           `ber:"tagNum:128"`
	}
	type choiceInStruct struct {
		A int        `ber:"tagNum:0"`
		B choiceTest `ber:"tagNum:1,choice"`
	}
	type intSlice struct{ List []int }
	type sliceInStruct struct {
		A []int `ber:"tagNum:0,seq"`
	}
	var i int
	x128 := strings.Repeat("x", 128)
	cases := []struct {
		in    interface{}
		out   string
		param string
	}{
		{10, "02010a", ""}, {127, "02017f", ""}, {128, "02020080", ""}, {0, "020100", ""},
		{-1, "0201ff", ""}, {-128, "020180", ""}, {-129, "0202ff7f", ""},
		{true, "0101ff", ""}, {false, "010100", ""},
		{asn.BitString{Bytes: []byte{0x80}, BitLength: 1}, "03020780", ""},
		{asn.BitString{Bytes: []byte{0x81, 0xf0}, BitLength: 12}, "03030481f0", ""},
		{asn.BitString{Bytes: []byte{0xff}, BitLength: 8}, "030200ff", ""},
		{asn.OctetString([]byte{1, 2, 3}), "0403010203", ""},
		{"test", "0c0474657374", "utf8"},
		{x128, "0c8180" + hex.EncodeToString([]byte(x128)), "utf8"},
		{asn.Enumerated(127), "0a017f", ""}, {asn.Enumerated(128), "0a020080", ""},
		{intStruct{64}, "3003800140", "seq"},
		{twoIntStruct{64, 65}, "3006800140810141", "seq"},
		{nestedStruct{intStruct{64}, intStruct{65}}, "300aa003800140a103800141", "seq"},
		{choiceTest{1, &i, nil, nil, nil, nil}, "800100", "choice"},
		{choiceTest{2, nil, &asn.BitString{Bytes: []byte{0x80}, BitLength: 1}, nil, nil, nil}, "81020780", "choice"},
		{choiceTest{3, nil, nil, &intStruct{64}, nil, nil}, "a203800140", "choice"},
		{choiceTest{4, nil, nil, nil, &i, nil}, "9f200100", "choice"},
		{choiceTest{5, nil, nil, nil, nil, &i}, "9f81000100", "choice"},
		{choiceInStruct{1, choiceTest{1, &i, nil, nil, nil, nil}}, "3008800101a103800100", "seq"},
		{[]int{1, 2, 3}, "3009020101020102020103", "seq"},
		{[]intStruct{{1}, {2}, {3}}, "300f300380010130038001023003800103", "seq"},
		{intSlice{[]int{1, 2, 3}}, "3009020101020102020103", "seq"},
		{sliceInStruct{[]int{1, 2, 3}}, "300ba009020101020102020103", "seq"},
		{[]int{}, "3000", "seq"},
		{[]choiceTest{{1, &i, nil, nil, nil, nil}, {3, nil, nil, &intStruct{64}, nil, nil}}, "3008800100a203800140", "seq"},
		{asn.UTF8String("a"), "0c0161", ""}, {asn.IA5String("a"), "160161", ""},
	}
	for _, tc := range cases {
		e := &refEnc{}
		got, err := e.encode(reflect.ValueOf(tc.in), parseTag(tc.param))
		if err != nil || hex.EncodeToString(got) != tc.out {
			t.Errorf("reference encoder: %#v (%q): got %x err %v, want %s", tc.in, tc.param, got, err, tc.out)
		}
		if _, err := oracle.WalkTLV(got); err != nil {
			t.Errorf("TLV walker rejects %s: %v", tc.out, err)
		}
	}
	for _, bad := range []string{"02020001", "0202ff80", "0101 01", "03020800", "1f00", "0c8101 61", "30038001", "9f80200100", "058100"} {
		b, _ := hex.DecodeString(strings.ReplaceAll(bad, " ", ""))
		if _, err := oracle.WalkTLV(b); err == nil {
			t.Errorf("TLV walker accepts malformed %s", bad)
		}
	}
	if len(regNames) < 150 {
		t.Errorf("registry has only %d types", len(regNames))
	}
}

// ------------------------------------------------------- native fuzz target
// Coverage-guided search behind the enumerations (thorough tier only): the
// bytes are decoded into a target chosen by the first argument; the oracle is
// the one of C16 (no panic, termination, empty input rejected, nothing read
// beyond the input).
var fuzzTargets = targetSpecs()
var fuzzParams = []string{"", "explicit,choice", "tagNum:3", "set", "utf8"}

func FuzzUnmarshal(f *testing.F) {
	for _, hexs := range []string{"", "1f", "0284ffffffff", "3080", "0100", "020100", "0101ff", "030200ff", "0403010203", "0500", "0a0105",
		"3003800140", "3009020101020102020103", "a203800140", "9f81000100", "bf8148038001c8", "30820001", "0482ffff", "7f", "ff7f00", "308180"} {
		b, _ := hex.DecodeString(hexs)
		for i := 0; i < len(fuzzTargets); i += 17 {
			f.Add(uint16(i), uint8(0), b)
		}
		f.Add(uint16(0), uint8(1), b)
	}
	f.Fuzz(func(t *testing.T, ti uint16, pi uint8, data []byte) {
		spec := fuzzTargets[int(ti)%len(fuzzTargets)]
		params := fuzzParams[int(pi)%len(fuzzParams)]
		if len(data) > 4096 {
			data = data[:4096]
		}
		typ := spec.Build()
		err, p, val, st := decodeOne(typ, params, data)
		if p {
			t.Fatalf("VIOLATION sig=panic/%s/%s unmarshal of %x into %s (params %q) panicked: %v\n%s", h.PanicClass(val), h.PanicFrame(st), data, typ, params, val, st)
		}
		if len(data) == 0 && err == nil {
			t.Fatalf("VIOLATION sig=no-error/empty unmarshal of empty input into %s returned no error", typ)
		}
	})
}
