package ber

// Independent X.690 reference encoder for the Go-type + `ber:"…"` tag
// language of cdr/asn, and a generic TLV walker.  Written from X.680/X.690
// and the package conventions visible in ber_test.go; it shares no code with
// cdr/asn (own tag-string parser, append-based, recursive).

import (
	"errors"
	"reflect"
	"strconv"
	"strings"

	"github.com/free5gc/chf/cdr/asn"
)

type rparams struct {
	optional, explicit, set, open bool
	tag                           *uint64
	str                           int
	hasDefault                    bool
	dflt                          *int64
}

func parseTag(s string) rparams {
	var p rparams
	for _, w := range strings.Split(s, ",") {
		w = strings.TrimSpace(w)
		switch {
		case w == "optional":
			p.optional = true
		case w == "explicit":
			p.explicit = true
		case w == "set":
			p.set = true
		case w == "openType":
			p.open = true
		case w == "utf8":
			p.str = 12
		case w == "ia5":
			p.str = 22
		case w == "graphic":
			p.str = 25
		case strings.HasPrefix(w, "default:"):
			p.hasDefault = true
			if n, err := strconv.ParseInt(w[8:], 10, 64); err == nil {
				p.dflt = &n
			}
		case strings.HasPrefix(w, "tagNum:"):
			if n, err := strconv.ParseUint(w[7:], 10, 64); err == nil {
				p.tag = &n
			}
		}
	}
	return p
}

// error classes in which the codec is required to return an error
var (
	errOID        = errors.New("oid")
	errOpen       = errors.New("opentype")
	errPresent    = errors.New("present-out-of-range")
	errNilMember  = errors.New("nil-nonoptional")
	errAmbiguous  = errors.New("AMBIGUOUS") // the reference has no opinion (harness skips the case)
	errNoRef      = errors.New("NOREF")     // the tag language does not say what the bytes are (no reference), but the value must still round-trip
	errUnsupKind  = errors.New("AMBIGUOUS-kind")
	bitStringType = reflect.TypeOf(asn.BitString{})
	octetType     = reflect.TypeOf(asn.OctetString{})
	oidType       = reflect.TypeOf(asn.ObjectIdentifier{})
	enumType      = reflect.TypeOf(asn.Enumerated(0))
	nullType      = reflect.TypeOf(asn.NULL(false))
	utf8Type      = reflect.TypeOf(asn.UTF8String(""))
	ia5Type       = reflect.TypeOf(asn.IA5String(""))
	graphicType   = reflect.TypeOf(asn.GraphicString(""))
)

// span annotates a region of the reference encoding (for failure signatures).
type span struct {
	lo, hi int
	what   string
}

type refEnc struct {
	spans []span
	feats map[string]bool // features seen (classification)
}

func minimalInt(x int64) []byte {
	n := 1
	for y := x; y > 127 || y < -128; y >>= 8 {
		n++
	}
	out := make([]byte, n)
	for i := n - 1; i >= 0; i-- {
		out[i] = byte(x)
		x >>= 8
	}
	return out
}

func header(class int, constructed bool, tag uint64, length int) []byte {
	var out []byte
	b := byte(class << 6)
	if constructed {
		b |= 0x20
	}
	if tag < 31 {
		out = append(out, b|byte(tag))
	} else {
		out = append(out, b|31)
		var tmp []byte
		for t := tag; ; t >>= 7 {
			tmp = append([]byte{byte(t & 0x7f)}, tmp...)
			if t < 128 {
				break
			}
		}
		for i := 0; i < len(tmp)-1; i++ {
			tmp[i] |= 0x80
		}
		out = append(out, tmp...)
	}
	if length < 128 {
		out = append(out, byte(length))
	} else {
		var tmp []byte
		for l := length; l > 0; l >>= 8 {
			tmp = append([]byte{byte(l)}, tmp...)
		}
		out = append(out, 0x80|byte(len(tmp)))
		out = append(out, tmp...)
	}
	return out
}

func (e *refEnc) feat(f string) {
	if e.feats == nil {
		e.feats = map[string]bool{}
	}
	e.feats[f] = true
}

func (e *refEnc) shift(from, by int) {
	for i := from; i < len(e.spans); i++ {
		e.spans[i].lo += by
		e.spans[i].hi += by
	}
}

// encode returns the reference encoding of v under field parameters p; the
// spans recorded for it are relative to the first octet returned.
func (e *refEnc) encode(v reflect.Value, p rparams) ([]byte, error) {
	if !v.IsValid() {
		return nil, errNilMember
	}
	for v.Kind() == reflect.Ptr || v.Kind() == reflect.Interface {
		if v.IsNil() {
			return nil, errNilMember
		}
		v = v.Elem()
	}
	t := v.Type()
	class, constructed := 0, false
	var tag uint64
	var content []byte
	what := ""
	mark := len(e.spans)
	switch t {
	case bitStringType:
		bs := v.Interface().(asn.BitString)
		tag, what = 3, "bitstring"
		content = append([]byte{byte((8 - bs.BitLength%8) % 8)}, bs.Bytes...)
		if bs.BitLength%8 == 0 {
			e.feat("bitstring%8==0")
		}
	case oidType:
		return nil, errOID
	case octetType:
		tag, what = 4, "octetstring"
		content = append([]byte{}, v.Bytes()...)
	case enumType:
		tag, what = 10, "enumerated"
		content = minimalInt(v.Int())
		if v.Int() < 0 {
			e.feat("negative-int")
		}
	case nullType:
		tag, what = 5, "null"
	default:
		switch v.Kind() {
		case reflect.Bool:
			tag, what = 1, "bool"
			if v.Bool() {
				content = []byte{0xff}
			} else {
				content = []byte{0}
			}
		case reflect.Int, reflect.Int32, reflect.Int64:
			tag, what = 2, "integer"
			content = minimalInt(v.Int())
			if v.Int() < 0 {
				e.feat("negative-int")
			}
		case reflect.String:
			what = "string"
			switch {
			case p.str != 0:
				tag = uint64(p.str)
			case t == utf8Type:
				tag = 12
			case t == ia5Type:
				tag = 22
			case t == graphicType:
				tag = 25
			default:
				return nil, errAmbiguous
			}
			content = []byte(v.String())
		case reflect.Slice:
			what = "seqof"
			constructed = true
			tag = 16
			if p.set {
				tag = 17
			}
			if p.set && v.Len() > 0 {
				// "set" on a list says SET OF; whether it also turns constructed elements into SETs is not
				// something the tag language defines (the codec passes the flag down on both sides)
				if universalConstructed(t.Elem()) {
					return nil, errNoRef
				}
			}
			ep := rparams{str: p.str}
			for i := 0; i < v.Len(); i++ {
				cm := len(e.spans)
				b, err := e.encode(v.Index(i), ep)
				if err != nil {
					return nil, err
				}
				e.shift(cm, len(content))
				content = append(content, b...)
			}
		case reflect.Struct:
			if t.NumField() == 0 {
				return nil, errUnsupKind
			}
			switch t.Field(0).Name {
			case "Value", "List":
				return e.encode(v.Field(0), p)
			case "Present":
				if p.open {
					return nil, errOpen
				}
				pr := int(v.Field(0).Int())
				if pr <= 0 || pr >= t.NumField() {
					return nil, errPresent
				}
				ap := parseTag(t.Field(pr).Tag.Get("ber"))
				if ap.tag == nil {
					e.feat("untagged-alternative")
				}
				if p.tag == nil {
					return e.encode(v.Field(pr), ap)
				}
				e.feat("choice-under-tag")
				inner, err := e.encode(v.Field(pr), ap)
				if err != nil {
					return nil, err
				}
				hd := header(2, true, *p.tag, len(inner))
				e.shift(mark, len(hd))
				e.spans = append(e.spans, span{0, len(hd), "hdr:choice-wrapper"})
				e.noteHeader(*p.tag, len(inner))
				return append(hd, inner...), nil
			default:
				what = "sequence"
				constructed = true
				tag = 16
				if p.set {
					tag = 17
				}
				present := 0
				nopt := 0
				for i := 0; i < t.NumField(); i++ {
					fp := parseTag(t.Field(i).Tag.Get("ber"))
					fv := v.Field(i)
					if fp.optional {
						nopt++
						k := fv.Kind()
						if (k == reflect.Ptr || k == reflect.Slice || k == reflect.Interface || k == reflect.Map) && fv.IsNil() {
							continue
						}
						if k != reflect.Ptr && k != reflect.Slice && k != reflect.Interface {
							return nil, errUnsupKind
						}
					}
					if fp.open {
						return nil, errOpen
					}
					if fp.tag == nil {
						e.feat("untagged-member")
					}
					cm := len(e.spans)
					b, err := e.encode(fv, fp)
					if err != nil {
						return nil, err
					}
					e.shift(cm, len(content))
					present++
					content = append(content, b...)
				}
				if nopt > 0 && nopt == t.NumField() && present == 0 {
					e.feat("all-optional-absent")
				}
			}
		default:
			return nil, errUnsupKind
		}
	}
	if p.tag != nil {
		if p.explicit {
			e.feat("explicit-tag")
			ih := header(class, constructed, tag, len(content))
			e.shift(mark, len(ih))
			e.spans = append(e.spans, span{0, len(ih), "hdr:explicit-inner:" + what})
			if !constructed {
				e.spans = append(e.spans, span{len(ih), len(ih) + len(content), "content:" + what})
			}
			content = append(ih, content...)
			constructed = true
			what = "explicit-wrapper"
		}
		class = 2
		tag = *p.tag
	}
	hd := header(class, constructed, tag, len(content))
	e.noteHeader(tag, len(content))
	e.shift(mark, len(hd))
	e.spans = append(e.spans, span{0, len(hd), "hdr:" + what})
	if !constructed {
		e.spans = append(e.spans, span{len(hd), len(hd) + len(content), "content:" + what})
	}
	return append(hd, content...), nil
}

// universalConstructed: a value of the type is encoded under the universal SEQUENCE / SET tag.
func universalConstructed(t reflect.Type) bool {
	for t.Kind() == reflect.Ptr {
		t = t.Elem()
	}
	if t == octetType || t == bitStringType {
		return false
	}
	switch t.Kind() {
	case reflect.Slice:
		return true
	case reflect.Struct:
		if t.NumField() == 0 {
			return false
		}
		switch t.Field(0).Name {
		case "Present":
			return false
		case "Value", "List":
			return universalConstructed(t.Field(0).Type)
		}
		return true
	}
	return false
}

func (e *refEnc) noteHeader(tag uint64, l int) {
	if tag >= 31 {
		e.feat("tag>=31")
	}
	if l >= 128 {
		e.feat("len>=128")
	}
	if l >= 65536 {
		e.feat("len>=65536")
	}
}

// locate names the innermost annotated region containing offset off.
func (e *refEnc) locate(off int) string {
	best, bestLen := "outside", 1<<62
	for _, s := range e.spans {
		if off >= s.lo && off < s.hi && s.hi-s.lo < bestLen {
			best, bestLen = s.what, s.hi-s.lo
		}
	}
	return best
}
