package ber

// Type specifications (registry types of cdr/cdrType and randomly generated
// struct/choice/slice types in the same `ber:"…"` tag language) and the
// type-directed value generator.

import (
	"fmt"
	"reflect"
	"strings"
	"unicode"

	"pgregory.net/rapid"

	"github.com/free5gc/chf/cdr/asn"
	"verifharness/h"
)

type FieldSpec struct {
	Name string   `json:"n"`
	Tag  string   `json:"t,omitempty"`
	Ptr  bool     `json:"p,omitempty"`
	Type TypeSpec `json:"ty"`
}

// TypeSpec names a registry type or describes a generated type.
type TypeSpec struct {
	Reg    string      `json:"reg,omitempty"`  // cdrType.<Reg>
	Prim   string      `json:"prim,omitempty"` // int,int32,int64,bool,enum,bitstring,octets,null,utf8,ia5,graphic,string
	Kind   string      `json:"kind,omitempty"` // struct,choice,slice,value,list
	Fields []FieldSpec `json:"f,omitempty"`
	Elem   *TypeSpec   `json:"e,omitempty"`
}

var primTypes = map[string]reflect.Type{
	"int": reflect.TypeOf(int(0)), "int32": reflect.TypeOf(int32(0)), "int64": reflect.TypeOf(int64(0)),
	"bool": reflect.TypeOf(false), "enum": enumType, "bitstring": bitStringType, "octets": octetType,
	"null": nullType, "utf8": utf8Type, "ia5": ia5Type, "graphic": graphicType, "string": reflect.TypeOf(""),
}

func (s TypeSpec) Build() reflect.Type {
	switch {
	case s.Reg != "":
		t, ok := registryByName[s.Reg]
		if !ok {
			panic("unknown registry type " + s.Reg)
		}
		return t
	case s.Prim != "":
		return primTypes[s.Prim]
	}
	switch s.Kind {
	case "slice":
		return reflect.SliceOf(s.Elem.Build())
	case "struct", "choice", "value", "list":
		var fs []reflect.StructField
		if s.Kind == "choice" {
			fs = append(fs, reflect.StructField{Name: "Present", Type: reflect.TypeOf(int(0))})
		}
		for _, f := range s.Fields {
			ft := f.Type.Build()
			if f.Ptr {
				ft = reflect.PtrTo(ft)
			}
			sf := reflect.StructField{Name: f.Name, Type: ft}
			if f.Tag != "" {
				sf.Tag = reflect.StructTag(`ber:"` + f.Tag + `"`)
			}
			fs = append(fs, sf)
		}
		return reflect.StructOf(fs)
	}
	panic("bad type spec")
}

func (s TypeSpec) Name() string {
	if s.Reg != "" {
		return s.Reg
	}
	if s.Prim != "" {
		return "prim:" + s.Prim
	}
	return "gen:" + s.Kind
}

// ------------------------------------------------------------------ types

var tagPool = []uint64{0, 1, 2, 3, 5, 30, 31, 32, 127, 128, 129, 16383, 16384, 1 << 21}

func genPrim(t *rapid.T) string {
	return rapid.SampledFrom([]string{"int", "int32", "int64", "bool", "enum", "bitstring", "octets", "null", "utf8", "ia5", "graphic"}).Draw(t, "prim")
}

func genTypeSpec(t *rapid.T, depth int) TypeSpec {
	kinds := []string{"prim", "prim", "struct", "choice", "slice", "value", "list"}
	if depth >= 3 {
		kinds = []string{"prim"}
	}
	switch rapid.SampledFrom(kinds).Draw(t, "kind") {
	case "prim":
		return TypeSpec{Prim: genPrim(t)}
	case "value":
		return TypeSpec{Kind: "value", Fields: []FieldSpec{{Name: "Value", Type: TypeSpec{Prim: genPrim(t)}}}}
	case "list":
		e := genTypeSpec(t, depth+1)
		return TypeSpec{Kind: "list", Fields: []FieldSpec{{Name: "List", Type: TypeSpec{Kind: "slice", Elem: &e}}}}
	case "slice":
		e := genTypeSpec(t, depth+1)
		return TypeSpec{Kind: "slice", Elem: &e}
	case "choice":
		n := rapid.IntRange(1, 3).Draw(t, "nalts")
		tags := rapid.Permutation(tagPool).Draw(t, "tags")
		s := TypeSpec{Kind: "choice"}
		untagged := rapid.IntRange(0, 4).Draw(t, "untaggedAlt") == 0
		for i := 0; i < n; i++ {
			ft := genTypeSpec(t, depth+1)
			f := FieldSpec{Name: fmt.Sprintf("A%d", i), Ptr: true, Type: ft, Tag: fieldTag(t, tags[i], ft, false)}
			if untagged && i == 0 {
				// one alternative without tagNum: a universal type (as IPBinaryAddress has an untagged nested CHOICE)
				f.Type, f.Tag = TypeSpec{Prim: rapid.SampledFrom([]string{"int", "bool", "octets", "bitstring", "utf8", "enum", "null"}).Draw(t, "untaggedPrim")}, ""
			}
			s.Fields = append(s.Fields, f)
		}
		return s
	default:
		n := rapid.IntRange(1, 4).Draw(t, "nfields")
		tags := rapid.Permutation(tagPool).Draw(t, "tags")
		s := TypeSpec{Kind: "struct"}
		untagged := -1
		if rapid.IntRange(0, 3).Draw(t, "untaggedMember") == 0 {
			untagged = rapid.IntRange(0, n-1).Draw(t, "untaggedIdx")
		}
		for i := 0; i < n; i++ {
			if i == untagged {
				// one member without tagNum, matched by its universal tag (as in IPBinV6AddressWithPrefixLength)
				s.Fields = append(s.Fields, FieldSpec{Name: fmt.Sprintf("F%d", i), Type: TypeSpec{Prim: rapid.SampledFrom([]string{"int", "bool", "octets", "bitstring", "utf8", "enum", "null"}).Draw(t, "untaggedPrim")}})
				continue
			}
			ft := genTypeSpec(t, depth+1)
			opt := rapid.IntRange(0, 2).Draw(t, "optional") > 0
			f := FieldSpec{Name: fmt.Sprintf("F%d", i), Type: ft}
			if opt && ft.Kind != "slice" {
				f.Ptr = true
			}
			f.Tag = fieldTag(t, tags[i], ft, opt)
			s.Fields = append(s.Fields, f)
		}
		return s
	}
}

func fieldTag(t *rapid.T, tag uint64, ft TypeSpec, optional bool) string {
	parts := []string{fmt.Sprintf("tagNum:%d", tag)}
	if optional {
		parts = append(parts, "optional")
	}
	if ft.Kind == "choice" {
		parts = append(parts, "choice")
	} else if rapid.IntRange(0, 5).Draw(t, "explicit") == 0 {
		parts = append(parts, "explicit")
	}
	if (ft.Kind == "struct" || ft.Kind == "slice") && rapid.IntRange(0, 3).Draw(t, "set") == 0 {
		parts = append(parts, "set")
	}
	if (ft.Prim == "utf8" || ft.Prim == "ia5" || ft.Prim == "graphic") && rapid.IntRange(0, 3).Draw(t, "strKind") == 0 {
		// a string kind beside a typed string member, also one that names another type than the member's
		parts = append(parts, rapid.SampledFrom([]string{"utf8", "ia5", "graphic"}).Draw(t, "kind"))
	}
	return strings.Join(parts, ",")
}

// ----------------------------------------------------------------- values

type valGen struct {
	t      *rapid.T
	budget int  // remaining optional/element expansions
	big    bool // allow one very long string
	errcls bool // allow an ill-formed construct (error class)
	full   bool // every optional member present, every list with one or two elements (deep, complete values)
	// withUnsupported: with full, members of OBJECT IDENTIFIER and open type are present too (the value must be refused)
	withUnsupported bool
	dflt            *int64
}

var intPool = func() []int64 {
	out := []int64{0, 1, -1, 127, 128, -128, -129, 255, 256, 32767, 32768, -32768, -32769, 2, 3, 4, 7, 8, 15, 16, 31, 32, 63, 64, 65, 100, 200, -2, -64}
	for k := uint(8); k < 63; k += 1 {
		out = append(out, 1<<k, 1<<k-1, 1<<k+1, -(1 << k), -(1<<k)-1, -(1<<k)+1)
	}
	out = append(out, 1<<63-1, -1<<63, -1<<63+1)
	return out
}()

func (g *valGen) int64(name string, bits int) int64 {
	var x int64
	if g.dflt != nil && rapid.IntRange(0, 2).Draw(g.t, name+"UseDefault") == 0 {
		// the value a `default:N` tag names, and its neighbours (encoders are tempted to omit defaults)
		d := *g.dflt + int64(rapid.IntRange(-1, 1).Draw(g.t, name+"DefaultDelta"))
		g.dflt = nil
		return d
	}
	if rapid.IntRange(0, 3).Draw(g.t, name+"Rnd") == 0 {
		x = rapid.Int64().Draw(g.t, name)
	} else {
		x = rapid.SampledFrom(intPool).Draw(g.t, name)
	}
	if bits == 32 {
		x = int64(int32(x))
	}
	return x
}

func (g *valGen) length(name string) int {
	classes := []int{0, 1, 2, 3, 7, 8, 20, 126, 127, 128, 129, 255, 256}
	if g.big && h.Thorough() {
		classes = append(classes, 65535, 65536, 70000)
	} else if g.big {
		classes = append(classes, 65535, 65536)
	}
	n := rapid.SampledFrom(classes).Draw(g.t, name+"Len")
	if n > 1000 {
		g.big = false
	}
	return n
}

func (g *valGen) bytes(name string) []byte {
	n := g.length(name)
	if n <= 20 {
		return rapid.SliceOfN(rapid.Byte(), n, n).Draw(g.t, name)
	}
	seed := rapid.Byte().Draw(g.t, name+"Fill")
	out := make([]byte, n)
	for i := range out {
		out[i] = seed + byte(i*7)
	}
	return out
}

func (g *valGen) str(name string, ascii bool) string {
	n := g.length(name)
	if n <= 20 {
		if ascii {
			return rapid.StringOfN(rapid.RuneFrom(nil, asciiTable), n, n, -1).Draw(g.t, name)
		}
		s := rapid.StringN(0, n, n).Draw(g.t, name) // up to n bytes of valid UTF-8
		if rapid.IntRange(0, 5).Draw(g.t, name+"RawOctets") == 0 {
			// a Go string is a sequence of octets: also contents that are not valid UTF-8 (Latin-1 letter, cut
			// multi-byte sequence, surrogate half, overlong form, 0xfe / 0xff)
			// (the case is JSON, which cannot carry such octets: they are written as U+E000 followed by two hex
			// digits and put back by Case.value)
			s += rapid.SampledFrom([]string{"\ue000fc", "\ue000e2\ue00082", "\ue000ed\ue000a0\ue00080", "\ue000c0\ue000af", "\ue000ff\ue000fe", "a\ue00080b"}).Draw(g.t, name+"Raw")
		}
		return s
	}
	c := rapid.SampledFrom([]string{"x", "a", "Z", "0"}).Draw(g.t, name+"Fill")
	return strings.Repeat(c, n)
}

func (g *valGen) spend() bool {
	if g.budget <= 0 {
		return false
	}
	g.budget--
	return true
}

// fill sets v (addressable) to a generated value of its type.
func (g *valGen) fill(v reflect.Value, p rparams, depth int) {
	t := v.Type()
	switch t {
	case bitStringType:
		n := g.length("bits")
		if n > 300 && !h.Thorough() {
			n = 300
		}
		var b []byte
		if n <= 20 {
			b = rapid.SliceOfN(rapid.Byte(), n, n).Draw(g.t, "bitBytes")
		} else {
			b = make([]byte, n)
			for i := range b {
				b[i] = byte(i*13 + 1)
			}
		}
		unused := 0
		if n > 0 {
			unused = rapid.SampledFrom([]int{0, 0, 0, 1, 2, 3, 4, 5, 6, 7}).Draw(g.t, "unused")
			b[n-1] &^= byte(1<<uint(unused) - 1)
		}
		v.Set(reflect.ValueOf(asn.BitString{Bytes: b, BitLength: uint64(8*n - unused)}))
		return
	case oidType:
		v.Set(reflect.ValueOf(asn.ObjectIdentifier{1, 2, 3}))
		return
	case octetType:
		v.Set(reflect.ValueOf(asn.OctetString(g.bytes("octets"))))
		return
	case enumType:
		v.SetInt(g.int64("enum", 64))
		return
	case nullType:
		v.SetBool(true)
		return
	}
	switch v.Kind() {
	case reflect.Bool:
		v.SetBool(rapid.Bool().Draw(g.t, "bool"))
	case reflect.Int, reflect.Int64:
		v.SetInt(g.int64("int", 64))
	case reflect.Int32:
		v.SetInt(g.int64("int32", 32))
	case reflect.String:
		// IA5String / GraphicString members mostly get 7-bit contents; the codec marshals any octets in them, so
		// (C05: "every value the codec can marshal") octets above 0x7f are drawn as well
		ascii := (t == ia5Type || t == graphicType || p.str == 22 || p.str == 25) && rapid.IntRange(0, 3).Draw(g.t, "sevenBit") != 0
		v.SetString(g.str("str", ascii))
	case reflect.Ptr:
		v.Set(reflect.New(t.Elem()))
		g.fill(v.Elem(), p, depth)
	case reflect.Slice:
		if t.Elem().Kind() == reflect.Uint8 {
			v.SetBytes(g.bytes("bytes"))
			return
		}
		n := 0
		if g.full {
			n = 1
			if depth < 12 && rapid.IntRange(0, 2).Draw(g.t, "two") == 0 {
				n = 2
			}
		} else if g.spend() {
			n = rapid.SampledFrom([]int{0, 1, 1, 2, 3}).Draw(g.t, "slen")
		}
		if n == 0 && rapid.Bool().Draw(g.t, "nilSlice") && !p.optional {
			return // nil non-optional slice: encodes as empty
		}
		s := reflect.MakeSlice(t, n, n)
		for i := 0; i < n; i++ {
			g.fill(s.Index(i), rparams{str: p.str}, depth+1)
		}
		v.Set(s)
	case reflect.Struct:
		if t.NumField() == 0 {
			return
		}
		switch t.Field(0).Name {
		case "Value", "List":
			g.fill(v.Field(0), p, depth)
			return
		case "Present":
			n := t.NumField()
			if n == 1 { // open type placeholder: nothing selectable
				return
			}
			pr := rapid.IntRange(1, n-1).Draw(g.t, "present")
			if g.errcls && rapid.IntRange(0, 3).Draw(g.t, "badPresent") == 0 {
				pr = rapid.SampledFrom([]int{0, n, n + 5, -1}).Draw(g.t, "presentBad")
				g.errcls = false
			}
			v.Field(0).SetInt(int64(pr))
			if pr >= 1 && pr < n {
				if g.errcls && rapid.IntRange(0, 5).Draw(g.t, "nilAlt") == 0 {
					g.errcls = false
					return // selected alternative left nil
				}
				g.fill(v.Field(pr), parseTag(t.Field(pr).Tag.Get("ber")), depth+1)
			}
			return
		}
		for i := 0; i < t.NumField(); i++ {
			fp := parseTag(t.Field(i).Tag.Get("ber"))
			fv := v.Field(i)
			if fp.optional {
				present := false
				if k := fv.Kind(); k != reflect.Ptr && k != reflect.Slice {
					present = true // non-nillable optional member (not in the schema)
				} else if g.full {
					// (members no value of which can be marshalled stay absent)
					ft := fv.Type()
					for ft.Kind() == reflect.Ptr {
						ft = ft.Elem()
					}
					present = g.withUnsupported || (ft != oidType && !fp.open)
				} else if g.spend() {
					den := 2 + depth
					present = rapid.IntRange(0, den-1).Draw(g.t, "present") == 0
				}
				if !present {
					continue
				}
			} else if fv.Kind() == reflect.Ptr && g.errcls && rapid.IntRange(0, 8).Draw(g.t, "nilMember") == 0 {
				g.errcls = false
				continue // non-optional nil pointer: marshal must report an error
			}
			g.dflt = fp.dflt
			g.fill(fv, fp, depth+1)
			g.dflt = nil
		}
	}
}

var asciiTable = &unicode.RangeTable{R16: []unicode.Range16{{Lo: 0x20, Hi: 0x7e, Stride: 1}}}
