module verifharness

go 1.23

require (
	github.com/free5gc/chf v0.0.0
	pgregory.net/rapid v1.3.0
)

require (
	github.com/asaskevich/govalidator v0.0.0-20230301143203-a9d515a09cc2 // indirect
	github.com/fclairamb/go-log v0.4.1 // indirect
	github.com/felixge/httpsnoop v1.0.4 // indirect
	github.com/fiorix/go-diameter v3.0.2+incompatible // indirect
	github.com/free5gc/openapi v1.1.0 // indirect
	github.com/free5gc/util v1.0.6 // indirect
	github.com/gabriel-vasile/mimetype v1.4.2 // indirect
	github.com/gin-contrib/sse v0.1.0 // indirect
	github.com/gin-gonic/gin v1.9.1 // indirect
	github.com/go-logr/logr v1.4.1 // indirect
	github.com/go-logr/stdr v1.2.2 // indirect
	github.com/go-playground/locales v0.14.1 // indirect
	github.com/go-playground/universal-translator v0.18.1 // indirect
	github.com/go-playground/validator/v10 v10.14.0 // indirect
	github.com/golang-jwt/jwt/v5 v5.2.2 // indirect
	github.com/google/uuid v1.3.0 // indirect
	github.com/h2non/gock v1.2.0 // indirect
	github.com/h2non/parth v0.0.0-20190131123155-b4df798d6542 // indirect
	github.com/ishidawataru/sctp v0.0.0-20230406120618-7ff4192f6ff2 // indirect
	github.com/leodido/go-urn v1.2.4 // indirect
	github.com/mattn/go-isatty v0.0.19 // indirect
	github.com/mitchellh/mapstructure v1.5.0 // indirect
	github.com/pelletier/go-toml/v2 v2.0.8 // indirect
	github.com/pkg/errors v0.9.1 // indirect
	github.com/sirupsen/logrus v1.9.3 // indirect
	github.com/tim-ywliu/nested-logrus-formatter v1.3.2 // indirect
	github.com/ugorji/go/codec v1.2.11 // indirect
	go.opentelemetry.io/contrib/instrumentation/net/http/httptrace/otelhttptrace v0.49.0 // indirect
	go.opentelemetry.io/contrib/instrumentation/net/http/otelhttp v0.49.0 // indirect
	go.opentelemetry.io/otel v1.24.0 // indirect
	go.opentelemetry.io/otel/metric v1.24.0 // indirect
	go.opentelemetry.io/otel/trace v1.24.0 // indirect
	golang.org/x/crypto v0.31.0 // indirect
	golang.org/x/net v0.33.0 // indirect
	golang.org/x/oauth2 v0.21.0 // indirect
	golang.org/x/sys v0.28.0 // indirect
	golang.org/x/text v0.21.0 // indirect
	google.golang.org/protobuf v1.33.0 // indirect
	gopkg.in/yaml.v2 v2.4.0 // indirect
	gopkg.in/yaml.v3 v3.0.1 // indirect
)

replace github.com/free5gc/chf => ../src
