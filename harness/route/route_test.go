// Engine route: C13 - with OAuth2 required every route of every enabled
// service answers 401 to unauthenticated requests and processes nothing.
package route

import (
	"bytes"
	"crypto/rand"
	"crypto/rsa"
	"crypto/x509"
	"encoding/base64"
	"encoding/json"
	"encoding/pem"
	"fmt"
	"net/http/httptest"
	"os"
	"path/filepath"
	"sort"
	"strings"
	"testing"
	"time"

	"github.com/gin-gonic/gin"
	"github.com/golang-jwt/jwt/v5"
	"pgregory.net/rapid"

	"github.com/free5gc/chf/verifapi"
	"github.com/free5gc/openapi/models"
	"verifharness/h"
	"verifharness/stackenv"
)

var (
	env      *stackenv.Env
	nrfKey   *rsa.PrivateKey
	otherKey *rsa.PrivateKey
	nrfPem   string
	pubPEM   []byte
)

var services = []string{"nchf-convergedcharging", "nchf-offlineonlycharging", "nchf-spendinglimitcontrol"}
var prefixes = map[string]string{"nchf-convergedcharging": "/nchf-convergedcharging/v3", "nchf-offlineonlycharging": "/nchf-offlineonlycharging/v1", "nchf-spendinglimitcontrol": "/nchf-spendinglimitcontrol/v1"}

func TestMain(m *testing.M) {
	var err error
	env, err = stackenv.Start(stackenv.Options{})
	if err != nil {
		fmt.Fprintln(os.Stderr, "HARNESS: cannot start the in-process stack:", err)
		os.Exit(2)
	}
	nrfKey, _ = rsa.GenerateKey(rand.Reader, 2048)
	otherKey, _ = rsa.GenerateKey(rand.Reader, 2048)
	der, _ := x509.MarshalPKIXPublicKey(&nrfKey.PublicKey)
	pubPEM = pem.EncodeToMemory(&pem.Block{Type: "PUBLIC KEY", Bytes: der})
	dir := os.Getenv("VERIF_WORK")
	if dir == "" {
		dir = os.TempDir()
	}
	nrfPem = filepath.Join(dir, fmt.Sprintf("nrf-%d.pem", os.Getpid()))
	_ = os.WriteFile(nrfPem, pubPEM, 0o600)
	gin.SetMode(gin.ReleaseMode)
	code := m.Run()
	env.Cleanup()
	os.Exit(code)
}

// all ordered duplicate-free sublists of the three service names
func allConfigs() [][]string {
	var out [][]string
	var rec func(cur []string, used int)
	rec = func(cur []string, used int) {
		out = append(out, append([]string{}, cur...))
		for i, s := range services {
			if used&(1<<uint(i)) == 0 {
				rec(append(cur, s), used|1<<uint(i))
			}
		}
	}
	rec(nil, 0)
	return out
}

func sign(method jwt.SigningMethod, key interface{}, scope string, exp time.Time) string {
	claims := models.NrfAccessTokenAccessTokenClaims{Iss: "nrf", Sub: "smf", Aud: "chf", Scope: scope, Exp: int32(exp.Unix()),
		RegisteredClaims: jwt.RegisteredClaims{ExpiresAt: jwt.NewNumericDate(exp)}}
	tok := jwt.NewWithClaims(method, claims)
	s, err := tok.SignedString(key)
	if err != nil {
		panic(err)
	}
	return s
}

// the genuine token of the controls and the tokens forged from it share header and claims (same expiry)
var fixedExp = time.Unix(2100000000, 0)

// forgedFrom keeps header and claims of the genuine token and replaces its signature.
func forgedFrom(svc string, resign bool) string {
	parts := strings.Split(sign(jwt.SigningMethodRS512, nrfKey, svc, fixedExp), ".")
	sig := "AAAA"
	if resign {
		if b, err := jwt.SigningMethodRS512.Sign(parts[0]+"."+parts[1], otherKey); err == nil {
			sig = base64.RawURLEncoding.EncodeToString(b)
		}
	}
	return parts[0] + "." + parts[1] + "." + sig
}

type tokenClass struct {
	name   string
	header func(svc string, garbage string) (string, bool) // value, present
}

var tokenClasses = []tokenClass{
	{"absent", func(string, string) (string, bool) { return "", false }},
	{"empty", func(string, string) (string, bool) { return "", true }},
	{"bearer-only", func(string, string) (string, bool) { return "Bearer", true }},
	{"garbage", func(_ string, g string) (string, bool) { return "Bearer " + g, true }},
	{"alg-none", func(svc string, _ string) (string, bool) {
		return "Bearer " + sign(jwt.SigningMethodNone, jwt.UnsafeAllowNoneSignatureType, svc, time.Now().Add(time.Hour)), true
	}},
	{"hs256-public-pem-as-secret", func(svc string, _ string) (string, bool) {
		return "Bearer " + sign(jwt.SigningMethodHS256, pubPEM, svc, time.Now().Add(time.Hour)), true
	}},
	{"hs512-public-pem-as-secret", func(svc string, _ string) (string, bool) {
		return "Bearer " + sign(jwt.SigningMethodHS512, pubPEM, svc, time.Now().Add(time.Hour)), true
	}},
	{"rs256-nrf-key", func(svc string, _ string) (string, bool) {
		return "Bearer " + sign(jwt.SigningMethodRS256, nrfKey, svc, time.Now().Add(time.Hour)), true
	}},
	{"rs512-other-key", func(svc string, _ string) (string, bool) {
		return "Bearer " + sign(jwt.SigningMethodRS512, otherKey, svc, time.Now().Add(time.Hour)), true
	}},
	{"rs512-other-key-expired", func(svc string, _ string) (string, bool) {
		return "Bearer " + sign(jwt.SigningMethodRS512, otherKey, svc, time.Now().Add(-time.Hour)), true
	}},
	{"basic-scheme", func(string, string) (string, bool) { return "Basic dXNlcjpwYXNzd29yZA==", true }},
	{"token-scheme-forged-jwt", func(svc string, _ string) (string, bool) {
		return "Token " + sign(jwt.SigningMethodRS512, otherKey, svc, time.Now().Add(time.Hour)), true
	}},
	{"bearer-forged-jwt-plus-extra-field", func(svc string, _ string) (string, bool) {
		return "Bearer " + sign(jwt.SigningMethodRS512, otherKey, svc, time.Now().Add(time.Hour)) + " realm=chf", true
	}},
	{"bearer-garbage-plus-extra-fields", func(_ string, g string) (string, bool) { return "Bearer " + g + " x y", true }},
	{"rs512-nrf-key-signature-truncated", func(svc string, _ string) (string, bool) {
		s := sign(jwt.SigningMethodRS512, nrfKey, svc, time.Now().Add(time.Hour))
		return "Bearer " + s[:len(s)-6], true
	}},
	{"genuine-token-resigned-with-other-key", func(svc string, _ string) (string, bool) { return "Bearer " + forgedFrom(svc, true), true }},
	{"genuine-token-with-garbage-signature", func(svc string, _ string) (string, bool) { return "Bearer " + forgedFrom(svc, false), true }},
	{"rs512-nrf-key-payload-swapped", func(svc string, _ string) (string, bool) {
		s := strings.Split(sign(jwt.SigningMethodRS512, nrfKey, svc, time.Now().Add(time.Hour)), ".")
		pl, _ := json.Marshal(map[string]interface{}{"scope": svc, "iss": "attacker"})
		s[1] = base64.RawURLEncoding.EncodeToString(pl)
		return "Bearer " + strings.Join(s, "."), true
	}},
}

type RouteCase struct {
	Services []string `json:"services"`
	Params   []string `json:"params"`           // values substituted for :parameters
	Garbage  string   `json:"garbage"`          // token garbage
	NoCert   bool     `json:"noCert,omitempty"` // OAuth2 is mandatory but no NRF certificate is configured (nrfCertPem empty): nothing can be verified, so nothing may pass
	Late     bool     `json:"late"`             // OAuth2 becomes mandatory after the router was built (the real start-up order: NewServer, then NRF registration)
}

func validBody(supi string) []byte {
	now := time.Now()
	req := models.ChfConvergedChargingChargingDataRequest{SubscriberIdentifier: supi, ChargingId: 1,
		NfConsumerIdentification: &models.ChfConvergedChargingNfIdentification{NFName: "smf", NodeFunctionality: "SMF"},
		InvocationTimeStamp:      &now, InvocationSequenceNumber: 1, NotifyUri: env.Sink.URL + "/notify/x",
		MultipleUnitUsage: []models.ChfConvergedChargingMultipleUnitUsage{{RatingGroup: 1, RequestedUnit: &models.RequestedUnit{TotalVolume: 5}}}}
	b, _ := json.Marshal(req)
	return b
}

func substitute(path string, params []string, k int) string {
	parts := strings.Split(path, "/")
	for i, p := range parts {
		if strings.HasPrefix(p, ":") || strings.HasPrefix(p, "*") {
			v := "x"
			if len(params) > 0 {
				v = params[(k+i)%len(params)]
			}
			parts[i] = v
		}
	}
	return strings.Join(parts, "/")
}

type worldState struct {
	ues, ops, notes int
}

func observe() worldState {
	return worldState{verifapi.UeCount(), env.FM.AllOps(), len(env.Notifications())}
}

// escapeAt percent-encodes the character at index i of the path (a letter or digit of a fixed segment).
func escapeAt(path string, i int) string {
	if i <= 0 || i >= len(path) || path[i] == '/' || path[i] == '%' {
		return path
	}
	return path[:i] + fmt.Sprintf("%%%02X", path[i]) + path[i+1:]
}

func judgeRoute(c RouteCase) *h.Verdict {
	v := &h.Verdict{NonTrivial: true}
	cfg := stackenv.BaseConfig(env.FM.URL(), env.RfPort, env.AbmfPort, env.PemFile, env.KeyFile)
	cfg.Configuration.ServiceNameList = c.Services
	verifapi.Init(cfg)
	pem := nrfPem
	if c.NoCert {
		pem = ""
		v.Label("no-nrf-certificate-configured")
	}
	if !c.Late {
		verifapi.SetOAuth(true, pem)
	}
	engine, err := verifapi.NewEngine()
	if err != nil {
		return v.Failf("HARNESS-router", "%v", err)
	}
	if c.Late {
		v.Label("oauth-required-after-router-built")
		verifapi.SetOAuth(true, pem)
	}
	v.Label(fmt.Sprintf("config:%d-services", len(c.Services)))
	routes := engine.Routes()
	sort.Slice(routes, func(i, j int) bool { return routes[i].Path+routes[i].Method < routes[j].Path+routes[j].Method })
	seenSvc := map[string]bool{}
	supi := env.NewSupi()
	env.SetAccount(supi, 1, 1000, "1")
	for _, rt := range routes {
		svc := ""
		for s, p := range prefixes {
			if strings.HasPrefix(rt.Path, p+"/") || rt.Path == p {
				svc = s
			}
		}
		if svc == "" {
			return v.Failf("route-outside-protected-groups", "route %s %s is registered outside the service groups", rt.Method, rt.Path)
		}
		enabled := false
		for _, s := range c.Services {
			enabled = enabled || s == svc
		}
		if !enabled {
			return v.Failf("route-of-disabled-service", "route %s %s belongs to %s, which is not in serviceNameList %v", rt.Method, rt.Path, svc, c.Services)
		}
		seenSvc[svc] = true
		for k := 0; k < 3; k++ {
			path := substitute(rt.Path, c.Params, k)
			for ti, tc := range tokenClasses {
				before := observe()
				// the same route spelled differently on the wire (a percent-encoded letter in the service or version
				// segment: routing works on the decoded path), and asked for with different Accept headers
				spelled := path
				switch (k + ti) % 3 {
				case 1:
					spelled = escapeAt(path, 1)
				case 2:
					if i := strings.Index(path[1:], "/"); i > 0 {
						spelled = escapeAt(path, i+2)
					}
				}
				if spelled != path {
					v.Label("path-percent-encoded")
				}
				req := httptest.NewRequest(rt.Method, spelled, bytes.NewReader(validBody(supi)))
				req.Header.Set("Content-Type", "application/json")
				if acc := []string{"", "text/plain", "application/xml;q=0.9", "application/problem+json", "*/*", "application/json"}[(k*7+ti)%6]; acc != "" {
					req.Header.Set("Accept", acc)
					v.Label("accept-header")
				}
				if hv, present := tc.header(svc, c.Garbage); present {
					req.Header.Set("Authorization", hv)
				}
				rec := httptest.NewRecorder()
				if p, val, st := h.Safely(func() { engine.ServeHTTP(rec, req) }); p {
					return v.Failf("probe-panic", "%s %s (%s): %v\n%s", rt.Method, path, tc.name, val, st)
				}
				v.Label("token:" + tc.name)
				if rec.Code != 401 {
					return v.Failf("not-401/"+tc.name+"/"+rt.Method+" "+rt.Path, "%s %s with token class %s answered %d %.200s (serviceNameList %v)", rt.Method, path, tc.name, rec.Code, rec.Body.String(), c.Services)
				}
				// the body is the rejection alone: one JSON document (or nothing), not a rejection followed by a handler's output
				if b := bytes.TrimSpace(rec.Body.Bytes()); len(b) > 0 {
					dec := json.NewDecoder(bytes.NewReader(b))
					var one interface{}
					if err := dec.Decode(&one); err != nil || dec.More() {
						return v.Failf("handler-ran-after-401/"+rt.Method+" "+rt.Path, "%s %s (%s): 401 body is %.300s, want the rejection alone", rt.Method, path, tc.name, rec.Body.String())
					}
				}
				time.Sleep(0)
				after := observe()
				if after != before {
					return v.Failf("processing-after-401/"+rt.Method+" "+rt.Path, "%s %s (%s): state changed from %+v to %+v", rt.Method, path, tc.name, before, after)
				}
			}
		}
		// controls: the probes are not vacuous
		for _, ctl := range []string{"valid-token", "oauth-off"} {
			req := httptest.NewRequest(rt.Method, substitute(rt.Path, []string{supi + "_1"}, 0), bytes.NewReader(validBody(supi)))
			req.Header.Set("Content-Type", "application/json")
			if ctl == "valid-token" && c.NoCert {
				continue // without a certificate a genuine token cannot be told from a forged one either
			}
			if ctl == "valid-token" {
				req.Header.Set("Authorization", "Bearer "+sign(jwt.SigningMethodRS512, nrfKey, svc, fixedExp))
			} else {
				verifapi.SetOAuth(false, nrfPem)
			}
			rec := httptest.NewRecorder()
			engine.ServeHTTP(rec, req)
			verifapi.SetOAuth(true, pem)
			if rec.Code == 401 {
				return v.Failf("control-"+ctl+"-rejected", "control %s: %s %s answered 401 %.200s", ctl, rt.Method, rt.Path, rec.Body.String())
			}
		}
		env.Notifications()
	}
	for _, s := range c.Services {
		if !seenSvc[s] {
			return v.Failf("service-without-routes", "service %s is enabled but no route of it is registered", s)
		}
	}
	return v
}

func TestC13AllConfigs(t *testing.T) {
	r := h.NewRecorder("C13", "configs")
	h.Enum(t, r, func(yield func(RouteCase) bool) {
		for _, cfg := range allConfigs() {
			for _, late := range []bool{false, true} {
				if !yield(RouteCase{Services: cfg, Params: []string{"x", "imsi-208930000000001_1", "imsi-208930000000001smf-7"}, Garbage: "not.a.jwt", Late: late}) {
					return
				}
			}
			if len(cfg) == 3 || len(cfg) == 1 {
				if !yield(RouteCase{Services: cfg, Params: []string{"x", "imsi-208930000000001_1"}, Garbage: "not.a.jwt", NoCert: true}) {
					return
				}
			}
		}
	}, judgeRoute, true)
}

func TestC13Random(t *testing.T) {
	cfgs := allConfigs()
	h.Run(t, "C13", "random", func(t *rapid.T) RouteCase {
		c := RouteCase{Services: rapid.SampledFrom(cfgs).Draw(t, "services"), Late: rapid.Bool().Draw(t, "late"), NoCert: rapid.IntRange(0, 5).Draw(t, "noCert") == 0}
		n := rapid.IntRange(1, 3).Draw(t, "nParams")
		for i := 0; i < n; i++ {
			c.Params = append(c.Params, rapid.StringMatching(`[a-zA-Z0-9_\-\.~]{1,24}`).Draw(t, "param"))
		}
		c.Garbage = rapid.SampledFrom([]string{"", ".", "..", "a.b.c", "eyJhbGciOiJSUzUxMiJ9.e30.", "eyJhbGciOiJub25lIn0.e30.", "Bearer", "null"}).Draw(t, "garbage")
		if rapid.Bool().Draw(t, "randomGarbage") {
			c.Garbage = rapid.StringMatching(`[A-Za-z0-9_\-\.]{0,60}`).Draw(t, "garbageRnd")
		}
		return c
	}, judgeRoute)
}

// Volume: thousands of rejected requests, with hundreds of distinct tokens, on the routes of every service of one
// router - every single one is answered 401, also the first ones when they are presented again at the end and
// after a genuine token has been accepted in between.
type volumeCase struct {
	N      int `json:"n"`      // rejected requests per service
	Tokens int `json:"tokens"` // distinct bad tokens in rotation
}

func judgeVolume(c volumeCase) *h.Verdict {
	v := &h.Verdict{NonTrivial: true}
	v.Label("rejections>=4500-per-service")
	cfg := stackenv.BaseConfig(env.FM.URL(), env.RfPort, env.AbmfPort, env.PemFile, env.KeyFile)
	cfg.Configuration.ServiceNameList = services
	verifapi.Init(cfg)
	verifapi.SetOAuth(true, nrfPem)
	engine, err := verifapi.NewEngine()
	if err != nil {
		return v.Failf("HARNESS-router", "%v", err)
	}
	bySvc := map[string][]gin.RouteInfo{}
	for _, rt := range engine.Routes() {
		for s, p := range prefixes {
			if strings.HasPrefix(rt.Path, p+"/") || rt.Path == p {
				bySvc[s] = append(bySvc[s], rt)
			}
		}
	}
	token := func(svc string, i int) string {
		switch i % 4 {
		case 0:
			return fmt.Sprintf("Bearer garbage-%d", i)
		case 1:
			return "Bearer " + sign(jwt.SigningMethodRS512, otherKey, svc, time.Unix(2000000000+int64(i), 0))
		case 2:
			return fmt.Sprintf("Bearer eyJhbGciOiJSUzUxMiJ9.e30.%d", i)
		}
		return fmt.Sprintf("Basic %d", i)
	}
	probe := func(svc string, k, ti int) (int, string) {
		rts := bySvc[svc]
		rt := rts[k%len(rts)]
		req := httptest.NewRequest(rt.Method, substitute(rt.Path, []string{"x"}, 0), bytes.NewReader(nil))
		req.Header.Set("Authorization", token(svc, ti))
		rec := httptest.NewRecorder()
		engine.ServeHTTP(rec, req)
		return rec.Code, rt.Method + " " + rt.Path
	}
	for _, svc := range services {
		if len(bySvc[svc]) == 0 {
			return v.Failf("service-without-routes", "service %s has no route", svc)
		}
		for k := 0; k < c.N; k++ {
			if code, what := probe(svc, k, k%c.Tokens); code != 401 {
				return v.Failf("not-401/after-many-rejections", "rejected request number %d of service %s (%s, token %d of %d in rotation) answered %d", k+1, svc, what, k%c.Tokens, c.Tokens, code)
			}
		}
		// a genuine token is accepted ...
		rt := bySvc[svc][0]
		req := httptest.NewRequest(rt.Method, substitute(rt.Path, []string{"x"}, 0), bytes.NewReader(nil))
		req.Header.Set("Authorization", "Bearer "+sign(jwt.SigningMethodRS512, nrfKey, svc, fixedExp))
		rec := httptest.NewRecorder()
		engine.ServeHTTP(rec, req)
		if rec.Code == 401 {
			return v.Failf("control-valid-token-rejected", "after %d rejections a genuine token is answered 401 on %s %s", c.N, rt.Method, rt.Path)
		}
		// ... and the bad tokens, the earliest included, are still rejected
		for ti := 0; ti < c.Tokens; ti++ {
			if code, what := probe(svc, ti, ti); code != 401 {
				return v.Failf("not-401/bad-token-presented-again", "bad token %d of service %s, rejected before, answered %d on %s when presented again after %d other tokens and a genuine one", ti, svc, code, what, c.Tokens)
			}
		}
	}
	env.Notifications()
	return v
}

func TestC13Volume(t *testing.T) {
	h.Run(t, "C13", "volume", func(t *rapid.T) volumeCase {
		return volumeCase{N: rapid.IntRange(4500, h.Scale(6000, 40000)).Draw(t, "n"), Tokens: rapid.SampledFrom([]int{300, 600, 700, 1100}).Draw(t, "tokens")}
	}, judgeVolume)
}
