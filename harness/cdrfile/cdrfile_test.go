// Engine cdrfile: properties C14 (codec round trip) and C15 (TS 32.297 byte
// layout, independent reader) over generated well-formed CDR file structures.
package cdrfile

import (
	"bytes"
	"encoding/binary"
	"fmt"
	"os"
	"path/filepath"
	"reflect"
	"testing"

	"pgregory.net/rapid"

	"github.com/free5gc/chf/cdr/cdrFile"
	"verifharness/h"
	"verifharness/oracle"
)

// Blob is a byte string given either literally or as (length, seed).
type Blob struct {
	Lit  []byte `json:"lit,omitempty"`
	N    int    `json:"n,omitempty"`
	Seed uint64 `json:"seed,omitempty"`
}

func (b Blob) Bytes() []byte {
	if b.N == 0 {
		if b.Lit == nil {
			return []byte{}
		}
		return b.Lit
	}
	out := make([]byte, b.N)
	x := b.Seed | 1
	for i := range out {
		x ^= x << 13
		x ^= x >> 7
		x ^= x << 17
		out[i] = byte(x >> 24)
	}
	return out
}
func (b Blob) Len() int {
	if b.N != 0 {
		return b.N
	}
	return len(b.Lit)
}

type TS = oracle.TS

type Rec struct {
	Rel, Ver, Fmt, TsN, Ext uint8
	Payload                 Blob
}

type FileCase struct {
	HiRel, HiVer, LoRel, LoVer uint8
	HiExt, LoExt               uint8
	Open, Last                 TS
	Seq                        uint32
	Reason                     uint8
	IP                         [20]byte
	Lost                       uint8
	RF, PE                     Blob
	Recs                       []Rec
	Many                       int    `json:"many,omitempty"`    // that many further records with a one-octet payload (a file with thousands of records)
	Prev                       string `json:"prev,omitempty"`    // what happened to the file name before: "" nothing | longer | shorter (a file of that size is stored under it) | fail (an Encoding into a missing directory was attempted just before)
	ManyLen                    int    `json:"manyLen,omitempty"` // payload length of those further records (0: one octet; -1: all different - record i has (i mod 600)+1 octets and a version / TS number that changes every 600 records, so that thousands of record headers are pairwise different - followed by one last record with the header of the first)
	Dirty                      bool   `json:"dirty,omitempty"`   // C14: the file is decoded into a variable that was decoded into before (a read of a file with extension octets that failed part-way, before any record)
	Alias                      bool   `json:"alias,omitempty"`   // routeing filter and private extension are windows on one array (the filter has spare capacity that reaches into the extension)
}

func genBlob(t *rapid.T, name string, allowHuge bool) Blob {
	classes := []int{0, 1, 2, 255, 256, -1, -1, -1, -1, -1, -1, -1, -1, -1, -1, -1}
	if allowHuge {
		classes = append(classes, 65535, 65534, 32768, -2)
	}
	k := rapid.SampledFrom(classes).Draw(t, name+"Class")
	switch k {
	case -1:
		return Blob{Lit: rapid.SliceOfN(rapid.Byte(), 0, 40).Draw(t, name)}
	case -2:
		return Blob{N: rapid.IntRange(257, 65535).Draw(t, name+"N"), Seed: rapid.Uint64().Draw(t, name+"Seed")}
	case 0:
		return Blob{}
	case 1, 2:
		return Blob{Lit: rapid.SliceOfN(rapid.Byte(), k, k).Draw(t, name)}
	default:
		return Blob{N: k, Seed: rapid.Uint64().Draw(t, name+"Seed")}
	}
}

func genTS(t *rapid.T, n string) TS {
	return TS{
		Mo: uint8(rapid.IntRange(0, 15).Draw(t, n+"Mo")), D: uint8(rapid.IntRange(0, 31).Draw(t, n+"D")),
		H: uint8(rapid.IntRange(0, 31).Draw(t, n+"H")), Mi: uint8(rapid.IntRange(0, 63).Draw(t, n+"Mi")),
		S: uint8(rapid.IntRange(0, 1).Draw(t, n+"S")), HD: uint8(rapid.IntRange(0, 31).Draw(t, n+"HD")),
		MD: uint8(rapid.IntRange(0, 63).Draw(t, n+"MD")),
	}
}

// rel draws a release identifier with 7 (the extension case) at 1/3.
func genRel(t *rapid.T, n string) uint8 {
	if rapid.IntRange(0, 2).Draw(t, n+"Is7") == 0 {
		return 7
	}
	return uint8(rapid.IntRange(0, 6).Draw(t, n))
}

func genFile(t *rapid.T) FileCase {
	huge := true
	var c FileCase
	c.HiRel, c.LoRel = genRel(t, "hiRel"), genRel(t, "loRel")
	c.HiVer = uint8(rapid.IntRange(0, 31).Draw(t, "hiVer"))
	c.LoVer = uint8(rapid.IntRange(0, 31).Draw(t, "loVer"))
	if c.HiRel == 7 {
		c.HiExt = rapid.Byte().Draw(t, "hiExt")
	}
	if c.LoRel == 7 {
		c.LoExt = rapid.Byte().Draw(t, "loExt")
	}
	c.Open, c.Last = genTS(t, "open"), genTS(t, "last")
	c.Seq = rapid.Uint32().Draw(t, "seq")
	c.Reason = rapid.SampledFrom([]uint8{0, 1, 2, 3, 4, 5, 128, 129, 130, 131, 6, 127, 255}).Draw(t, "reason")
	ip := rapid.SliceOfN(rapid.Byte(), 20, 20).Draw(t, "ip")
	copy(c.IP[:], ip)
	c.Lost = rapid.Byte().Draw(t, "lost")
	c.RF = genBlob(t, "rf", huge)
	c.PE = genBlob(t, "pe", huge)
	maxRecs := 6
	if h.Thorough() && rapid.IntRange(0, 20).Draw(t, "manyRecs") == 0 {
		maxRecs = 300
	}
	n := rapid.IntRange(0, maxRecs).Draw(t, "nrecs")
	for i := 0; i < n; i++ {
		var r Rec
		r.Rel = genRel(t, "recRel")
		r.Ver = uint8(rapid.IntRange(0, 31).Draw(t, "recVer"))
		r.Fmt = uint8(rapid.IntRange(0, 7).Draw(t, "recFmt"))
		r.TsN = uint8(rapid.IntRange(0, 31).Draw(t, "recTs"))
		if r.Rel == 7 {
			r.Ext = rapid.Byte().Draw(t, "recExt")
		}
		r.Payload = genBlob(t, "payload", huge && maxRecs <= 6)
		c.Recs = append(c.Recs, r)
	}
	if rapid.IntRange(0, h.Scale(60, 25)).Draw(t, "thousands") == 0 {
		c.Many = rapid.SampledFrom([]int{4095, 4096, 4097, 5000, 10000}).Draw(t, "many")
	}
	c.Prev = rapid.SampledFrom([]string{"", "", "", "longer", "shorter", "fail", "blocked"}).Draw(t, "prev")
	c.Dirty = rapid.IntRange(0, 3).Draw(t, "dirty") == 0
	c.Alias = rapid.IntRange(0, 3).Draw(t, "alias") == 0
	return c
}

// all records of the case, the generated ones and the thousands of one-octet ones
func (c FileCase) recs() []Rec {
	if c.Many == 0 {
		return c.Recs
	}
	out := append([]Rec{}, c.Recs...)
	for i := 0; i < c.Many; i++ {
		switch {
		case c.ManyLen < 0:
			out = append(out, Rec{Rel: 3, Ver: uint8((i / 600) % 32), Fmt: 1, TsN: uint8(i / (600 * 32)), Payload: Blob{N: i%600 + 1, Seed: uint64(i + 1)}})
		case c.ManyLen > 0:
			out = append(out, Rec{Rel: uint8(i % 7), Ver: uint8(i % 32), Fmt: uint8(1 + i%4), TsN: uint8(i % 32), Payload: Blob{N: c.ManyLen - i%3, Seed: uint64(i + 1)}})
		default:
			out = append(out, Rec{Rel: uint8(i % 7), Ver: uint8(i % 32), Fmt: uint8(1 + i%4), TsN: uint8(i % 32), Payload: Blob{N: 1, Seed: uint64(i + 1)}})
		}
	}
	if c.ManyLen < 0 && c.Many > 0 {
		out = append(out, Rec{Rel: 3, Ver: 0, Fmt: 1, TsN: 0, Payload: Blob{N: 1, Seed: 99}})
	}
	return out
}

func (c FileCase) headerLen() int {
	n := 52 + c.RF.Len() + c.PE.Len()
	if c.HiRel == 7 {
		n++
	}
	if c.LoRel == 7 {
		n++
	}
	return n
}

func (c FileCase) build() cdrFile.CDRFile {
	var f cdrFile.CDRFile
	conv := func(t TS) cdrFile.CdrHdrTimeStamp {
		return cdrFile.CdrHdrTimeStamp{MonthLocal: t.Mo, DateLocal: t.D, HourLocal: t.H, MinuteLocal: t.Mi,
			SignOfTheLocalTimeDifferentialFromUtc: t.S, HourDeviation: t.HD, MinuteDeviation: t.MD}
	}
	rfb, peb := c.RF.Bytes(), c.PE.Bytes()
	if c.Alias && !noAlias {
		// one vendor blob cut in two: the filter's spare capacity reaches into the extension (and beyond)
		blob := make([]byte, 0, len(rfb)+len(peb)+64)
		blob = append(append(blob, rfb...), peb...)
		rfb, peb = blob[:len(rfb)], blob[len(rfb):len(rfb)+len(peb)]
	}
	total := c.headerLen()
	for _, r := range c.recs() {
		total += 4 + r.Payload.Len()
		if r.Rel == 7 {
			total++
		}
	}
	f.Hdr = cdrFile.CdrFileHeader{
		FileLength: uint32(total), HeaderLength: uint32(c.headerLen()),
		HighReleaseIdentifier: c.HiRel, HighVersionIdentifier: c.HiVer,
		LowReleaseIdentifier: c.LoRel, LowVersionIdentifier: c.LoVer,
		FileOpeningTimestamp: conv(c.Open), TimestampWhenLastCdrWasAppendedToFIle: conv(c.Last),
		NumberOfCdrsInFile: uint32(len(c.recs())), FileSequenceNumber: c.Seq,
		FileClosureTriggerReason:         cdrFile.FileClosureTriggerReasonType(c.Reason),
		IpAddressOfNodeThatGeneratedFile: c.IP, LostCdrIndicator: c.Lost,
		LengthOfCdrRouteingFilter: uint16(c.RF.Len()), CDRRouteingFilter: rfb,
		LengthOfPrivateExtension: uint16(c.PE.Len()), PrivateExtension: peb,
		HighReleaseIdentifierExtension: c.HiExt, LowReleaseIdentifierExtension: c.LoExt,
	}
	for _, r := range c.recs() {
		p := r.Payload.Bytes()
		f.CdrList = append(f.CdrList, cdrFile.CDR{
			Hdr: cdrFile.CdrHeader{CdrLength: uint16(len(p)), ReleaseIdentifier: cdrFile.ReleaseIdentifierType(r.Rel),
				VersionIdentifier: r.Ver, DataRecordFormat: cdrFile.DataRecordFormatType(r.Fmt),
				TsNumber: cdrFile.TsNumberIdentifier(r.TsN), ReleaseIdentifierExtension: r.Ext},
			CdrByte: p,
		})
	}
	return f
}

func (c FileCase) classify(v *h.Verdict) {
	if (c.HiRel == 7) != (c.LoRel == 7) {
		if c.LoRel == 7 {
			v.NT("lowExtOnly")
		} else {
			v.NT("highExtOnly")
		}
	} else if c.HiRel == 7 {
		v.Label("bothExt")
	} else {
		v.Label("noExt")
	}
	if len(c.recs()) == 0 {
		v.NT("zeroRecords")
	}
	if c.RF.Len() >= 256 || c.PE.Len() >= 256 {
		v.NT("variablePart>=256")
	}
	if 52+c.RF.Len()+c.PE.Len() > 65535 {
		v.NT("variableParts>64KiB")
	}
	has7, hasNot7 := false, false
	for _, r := range c.recs() {
		if r.Payload.Len() == 0 {
			v.NT("emptyPayload")
		}
		if r.Payload.Len() >= 32768 {
			v.NT("payload>=32KiB")
		}
		if r.Rel == 7 {
			has7 = true
		} else {
			hasNot7 = true
		}
	}
	if has7 && hasNot7 {
		v.NT("mixedRecordExt")
	}
	if len(c.recs()) > 6 {
		v.NT("manyRecords")
	}
	if c.Many > 4096 {
		v.NT("records>4096")
	}
	if c.Many > 65536 {
		v.NT("records>65536")
	}
	if c.ManyLen < 0 && c.Many > 4096 {
		v.NT("distinct-record-headers>4096-then-the-first-again")
	}
	if c.ManyLen > 0 {
		switch sz := c.Many * (c.ManyLen + 4); {
		case sz >= 8<<20:
			v.NT("file>=8MiB")
		case sz >= 4<<20:
			v.NT("file>=4MiB")
		}
	}
	if c.Prev != "" {
		v.Label("name-used-before:" + c.Prev)
	}
	if c.Alias && c.RF.Len() > 0 && c.PE.Len() > 0 {
		v.Label("filter-and-extension-share-an-array")
	}
}

func (c FileCase) sigFlags() string {
	s := ""
	if c.LoRel == 7 && c.HiRel != 7 {
		s += "/lowExtOnly"
	}
	if 52+c.RF.Len()+c.PE.Len() > 65535 {
		s += "/var>64KiB"
	}
	return s
}

var tmpSeq int

// noAlias makes build() return separately allocated slices (the expected value of a comparison)
var noAlias bool

func (c FileCase) expected() cdrFile.CDRFile {
	noAlias = true
	defer func() { noAlias = false }()
	return c.build()
}

// before prepares what the case says happened to the file name earlier.
func (c FileCase) before(name string) {
	switch c.Prev {
	case "longer":
		l := c
		l.Alias, l.Prev, l.Many, l.ManyLen = false, "", 0, 0
		l.Recs = append(append([]Rec{}, c.Recs...), Rec{Rel: 3, Fmt: 1, Payload: Blob{N: 5000, Seed: 77}}, Rec{Rel: 7, Ext: 9, Fmt: 2, Payload: Blob{N: 100, Seed: 78}})
		f := l.build()
		h.Safely(func() { f.Encoding(name) })
		if c.Many > 0 {
			_ = os.WriteFile(name, make([]byte, 200000), 0o600)
		}
	case "shorter":
		_ = os.WriteFile(name, []byte{1, 2, 3, 4, 5, 6, 7, 8, 9, 10}, 0o600)
	case "fail":
		l := c
		l.Alias, l.Prev, l.Many, l.ManyLen = false, "", 0, 0
		f := l.build()
		h.Safely(func() { f.Encoding(filepath.Join(h.WorkDir(), "no-such-directory", "x.bin")) })
	case "blocked":
		// the name was taken by a directory when a longer file was to be written under it (that attempt failed;
		// whatever it left beside the name is part of the history); the directory is gone now
		l := c
		l.Alias, l.Prev, l.Many, l.ManyLen = false, "", 0, 0
		l.Recs = append(append([]Rec{}, c.Recs...), Rec{Rel: 3, Fmt: 1, Payload: Blob{N: 5000, Seed: 77}}, Rec{Rel: 7, Ext: 9, Fmt: 2, Payload: Blob{N: 100, Seed: 78}})
		f := l.build()
		_ = os.Mkdir(name, 0o755)
		h.Safely(func() { f.Encoding(name) })
		_ = os.Remove(name)
	}
}

func tmpName() string {
	tmpSeq++
	return filepath.Join(h.WorkDir(), fmt.Sprintf("cdrfile-%d-%d.bin", os.Getpid(), tmpSeq))
}

func nz(b []byte) []byte {
	if b == nil {
		return []byte{}
	}
	return b
}

// equalFiles compares field by field, nil == empty for byte fields and list.
func equalFiles(a, b cdrFile.CDRFile) (string, bool) {
	av, bv := reflect.ValueOf(a.Hdr), reflect.ValueOf(b.Hdr)
	for i := 0; i < av.NumField(); i++ {
		name := av.Type().Field(i).Name
		x, y := av.Field(i).Interface(), bv.Field(i).Interface()
		if xb, ok := x.([]byte); ok {
			if !bytes.Equal(nz(xb), nz(y.([]byte))) {
				return name, false
			}
			continue
		}
		if !reflect.DeepEqual(x, y) {
			return name, false
		}
	}
	if len(a.CdrList) != len(b.CdrList) {
		return "CdrList.len", false
	}
	for i := range a.CdrList {
		if a.CdrList[i].Hdr != b.CdrList[i].Hdr {
			return "CdrList.Hdr", false
		}
		if !bytes.Equal(nz(a.CdrList[i].CdrByte), nz(b.CdrList[i].CdrByte)) {
			return "CdrList.CdrByte", false
		}
	}
	return "", true
}

func judgeC14(c FileCase) *h.Verdict {
	v := &h.Verdict{}
	c.classify(v)
	in := c.build()
	name := tmpName()
	defer os.Remove(name)
	c.before(name)
	if p, val, st := h.Safely(func() { in.Encoding(name) }); p {
		return v.Failf("encode-panic/"+h.PanicClass(val)+c.sigFlags(), "Encoding panicked: %v\n%s", val, st)
	}
	if field, ok := equalFiles(c.expected(), in); !ok {
		return v.Failf("input-modified/"+field, "Encoding changed the value it was given (%s)", field)
	}
	in = c.expected()
	var out cdrFile.CDRFile
	if c.Dirty {
		// the variable has been decoded into before: a file with both release identifier extensions, cut short right behind
		// its header (a read that fails part-way, before any record is stored)
		d := FileCase{HiRel: 7, LoRel: 7, HiExt: 0x5a, LoExt: 0xa5, Seq: 9, RF: Blob{Lit: []byte("rf")}, PE: Blob{Lit: []byte("pe")},
			Recs: []Rec{{Rel: 7, Ext: 3, Fmt: 1, Payload: Blob{N: 40, Seed: 5}}, {Rel: 2, Fmt: 2, Payload: Blob{N: 9, Seed: 6}}}}
		dn := tmpName()
		df := d.build()
		if p, _, _ := h.Safely(func() { df.Encoding(dn) }); !p {
			// (only the failed read: what Decoding does with the records of a variable that already holds some is
			// not something the property speaks about)
			if b, err := os.ReadFile(dn); err == nil && len(b) > 70 {
				_ = os.WriteFile(dn, b[:d.headerLen()], 0o600)
				h.Safely(func() { out.Decoding(dn) })
			}
		}
		os.Remove(dn)
		v.Label("decoded-into-a-variable-used-before")
	}
	if p, val, st := h.Safely(func() { out.Decoding(name) }); p {
		return v.Failf("decode-panic/"+h.PanicClass(val)+c.sigFlags(), "Decoding panicked: %v\n%s", val, st)
	}
	if field, ok := equalFiles(in, out); !ok {
		return v.Failf("mismatch/"+field+c.sigFlags(), "decode(encode(f)) differs from f in %s", field)
	}
	return v
}

// ---------------------------------------------------------------------
// C15: independent TS 32.297 clause 6.1 reader and byte-layout assertions.

func judgeC15(c FileCase) *h.Verdict {
	v := &h.Verdict{}
	c.classify(v)
	in := c.build()
	name := tmpName()
	defer os.Remove(name)
	c.before(name)
	if p, val, st := h.Safely(func() { in.Encoding(name) }); p {
		return v.Failf("encode-panic/"+h.PanicClass(val)+c.sigFlags(), "Encoding panicked: %v\n%s", val, st)
	}
	d, err := os.ReadFile(name)
	if err != nil {
		return v.Failf("HARNESS-io", "%v", err)
	}
	// (1) direct layout assertions: offsets from the specification tables.
	be := binary.BigEndian
	rf, pe := c.RF.Bytes(), c.PE.Bytes()
	exp := func(what string, off int, want []byte) bool {
		if off+len(want) > len(d) || !bytes.Equal(d[off:off+len(want)], want) {
			v.Failf("layout/"+what, "%s: octets at offset %d are not %x", what, off, want)
			return false
		}
		return true
	}
	u32 := func(x uint32) []byte { b := make([]byte, 4); be.PutUint32(b, x); return b }
	u16 := func(x uint16) []byte { b := make([]byte, 2); be.PutUint16(b, x); return b }
	pack := func(t TS) uint32 {
		return uint32(t.Mo)<<28 | uint32(t.D)<<23 | uint32(t.H)<<18 | uint32(t.Mi)<<12 | uint32(t.S)<<11 | uint32(t.HD)<<6 | uint32(t.MD)
	}
	hl := c.headerLen()
	ok := exp("HeaderLength", 4, u32(uint32(hl))) &&
		exp("HighRelVer", 8, []byte{c.HiRel<<5 | c.HiVer}) &&
		exp("LowRelVer", 9, []byte{c.LoRel<<5 | c.LoVer}) &&
		exp("OpenTs", 10, u32(pack(c.Open))) &&
		exp("LastTs", 14, u32(pack(c.Last))) &&
		exp("NumberOfCdrs", 18, u32(uint32(len(c.recs())))) &&
		exp("FileSeq", 22, u32(c.Seq)) &&
		exp("ClosureReason", 26, []byte{c.Reason}) &&
		exp("NodeIP", 27, c.IP[:]) &&
		exp("LostCdr", 47, []byte{c.Lost}) &&
		exp("RFLength", 48, u16(uint16(len(rf)))) &&
		exp("RF", 50, rf) &&
		exp("PELength", 50+len(rf), u16(uint16(len(pe)))) &&
		exp("PE", 52+len(rf), pe)
	if !ok {
		return v
	}
	p := 52 + len(rf) + len(pe)
	if c.HiRel == 7 {
		if !exp("HighExt", p, []byte{c.HiExt}) {
			return v
		}
		p++
	}
	if c.LoRel == 7 {
		if !exp("LowExt", p, []byte{c.LoExt}) {
			return v
		}
		p++
	}
	for _, r := range c.recs() {
		pl := r.Payload.Bytes()
		if !exp("RecLength", p, u16(uint16(len(pl)))) || !exp("RecRelVer", p+2, []byte{r.Rel<<5 | r.Ver}) ||
			!exp("RecFmtTs", p+3, []byte{r.Fmt<<5 | r.TsN}) {
			return v
		}
		p += 4
		if r.Rel == 7 {
			if !exp("RecExt", p, []byte{r.Ext}) {
				return v
			}
			p++
		}
		if !exp("RecPayload", p, pl) {
			return v
		}
		p += len(pl)
	}
	if p != len(d) {
		return v.Failf("layout/trailing", "file has %d octets, specification layout accounts for %d", len(d), p)
	}
	if !exp("FileLength", 0, u32(uint32(len(d)))) {
		return v
	}
	// (2) the independent reader recovers every field and consumes the file.
	s, err := oracle.ReadSpec(d)
	if err != nil {
		return v.Failf("reader/error", "independent reader: %v", err)
	}
	if s.Consumed != len(d) {
		return v.Failf("reader/consumed", "reader consumed %d of %d octets", s.Consumed, len(d))
	}
	chk := func(what string, got, want interface{}) bool {
		if !reflect.DeepEqual(got, want) {
			v.Failf("reader/"+what, "%s: reader recovered %v, written %v", what, got, want)
			return false
		}
		return true
	}
	if !(chk("FileLength", s.FileLength, uint32(len(d))) && chk("HiRel", s.HiRel, c.HiRel) && chk("HiVer", s.HiVer, c.HiVer) &&
		chk("LoRel", s.LoRel, c.LoRel) && chk("LoVer", s.LoVer, c.LoVer) && chk("Open", s.Open, c.Open) && chk("Last", s.Last, c.Last) &&
		chk("Seq", s.Seq, c.Seq) && chk("Reason", s.Reason, c.Reason) && chk("IP", s.IP, c.IP) && chk("Lost", s.Lost, c.Lost) &&
		chk("RF", nz(s.RF), rf) && chk("PE", nz(s.PE), pe) && chk("HiExt", s.HiExt, c.HiExt) && chk("LoExt", s.LoExt, c.LoExt) &&
		chk("NRecs", len(s.Recs), len(c.recs()))) {
		return v
	}
	for i, r := range c.recs() {
		g := s.Recs[i]
		if !(chk("RecRel", g.Rel, r.Rel) && chk("RecVer", g.Ver, r.Ver) && chk("RecFmt", g.Fmt, r.Fmt) && chk("RecTs", g.TsN, r.TsN) &&
			chk("RecExt", g.Ext, r.Ext) && chk("RecPayload", nz(g.Payload), r.Payload.Bytes())) {
			return v
		}
	}
	return v
}

func TestC14RoundTrip(t *testing.T) { h.Run(t, "C14", "roundtrip", genFile, judgeC14) }
func TestC15Layout(t *testing.T)    { h.Run(t, "C15", "layout", genFile, judgeC15) }

// All 64 release-identifier pairs, systematically (the rest of the case drawn
// by rapid): guarantees every pair is covered in every run.
func genPairs(t *rapid.T) []FileCase {
	var out []FileCase
	base := genFile(t)
	for hi := uint8(0); hi < 8; hi++ {
		for lo := uint8(0); lo < 8; lo++ {
			c := base
			c.HiRel, c.LoRel = hi, lo
			c.HiExt, c.LoExt = 0, 0
			if hi == 7 {
				c.HiExt = base.Seq2byte(0)
			}
			if lo == 7 {
				c.LoExt = base.Seq2byte(1)
			}
			out = append(out, c)
		}
	}
	return out
}

func (c FileCase) Seq2byte(i int) uint8 { return uint8(c.Seq>>(8*uint(i))) | 1 }

func judgeAll(j func(FileCase) *h.Verdict) func([]FileCase) *h.Verdict {
	return func(cs []FileCase) *h.Verdict {
		agg := &h.Verdict{}
		for _, c := range cs {
			v := j(c)
			agg.Labels = append(agg.Labels, v.Labels...)
			agg.NonTrivial = agg.NonTrivial || v.NonTrivial
			if v.Failed() && !agg.Failed() {
				agg.Sig, agg.Msg = v.Sig, fmt.Sprintf("(hi=%d lo=%d) %s", c.HiRel, c.LoRel, v.Msg)
			}
		}
		return agg
	}
}

func TestC14Pairs(t *testing.T) { h.Run(t, "C14", "pairs", genPairs, judgeAll(judgeC14)) }
func TestC15Pairs(t *testing.T) { h.Run(t, "C15", "pairs", genPairs, judgeAll(judgeC15)) }

// Self-test of the independent reader against the repository's own example
// (values of TestCdrFile/cdrfile1): reader and product agree on a known file.
func TestSelfReader(t *testing.T) {
	c := FileCase{HiRel: 2, HiVer: 3, LoRel: 4, LoVer: 5, Seq: 11, Reason: 4, Lost: 4,
		RF: Blob{Lit: []byte("abcd")}, PE: Blob{Lit: []byte("fghjk")},
		Recs: []Rec{{Rel: 3, Ver: 3, Fmt: 2, TsN: 19, Payload: Blob{Lit: []byte("abc")}}}}
	if v := judgeC15(c); v.Failed() {
		t.Fatalf("self-test: %s %s", v.Sig, v.Msg)
	}
}

// Volume: files beyond the sizes the generator draws - more than 65536 records, more than 4096 pairwise different
// record headers followed by the first one again, 4 to 12 MiB of records - the rest of the case drawn as usual.
func genVolumeFiles(t *rapid.T) []FileCase {
	var out []FileCase
	add := func(many, manyLen int) {
		c := genFile(t)
		if len(c.Recs) > 2 {
			c.Recs = c.Recs[:2]
		}
		c.Many, c.ManyLen, c.Prev = many, manyLen, ""
		out = append(out, c)
	}
	add(rapid.SampledFrom([]int{65535, 65536, 65537, 70000}).Draw(t, "records"), 0)
	add(rapid.SampledFrom([]int{4096, 4097, 5000, 9000, 20000}).Draw(t, "distinct"), -1)
	add(rapid.IntRange(70, 100).Draw(t, "mid"), rapid.IntRange(58000, 65535).Draw(t, "midLen"))       // 4 - 6.5 MiB
	add(rapid.IntRange(140, 200).Draw(t, "big"), rapid.IntRange(60000, 65535).Draw(t, "bigLen"))      // 8 - 13 MiB
	add(rapid.IntRange(9000, 12000).Draw(t, "smallMany"), rapid.IntRange(900, 1000).Draw(t, "smLen")) // 8 - 12 MiB of small records
	return out
}

func TestC14Volume(t *testing.T) { h.Run(t, "C14", "volume", genVolumeFiles, judgeAll(judgeC14)) }
func TestC15Volume(t *testing.T) { h.Run(t, "C15", "volume", genVolumeFiles, judgeAll(judgeC15)) }
