// Package diamgen generates and compares values of the Diameter message structures of ccs_diameter/datatype
// (shared by the engines diam and fault).
package diamgen

import (
	"bytes"
	"fmt"
	"reflect"
	"strings"
	"time"

	"github.com/fiorix/go-diameter/diam/datatype"
	"pgregory.net/rapid"

	cdt "github.com/free5gc/chf/ccs_diameter/datatype"
)

var MsgTypes = map[string]reflect.Type{
	"SUR": reflect.TypeOf(cdt.ServiceUsageRequest{}), "SUA": reflect.TypeOf(cdt.ServiceUsageResponse{}),
	"CCR": reflect.TypeOf(cdt.AccountDebitRequest{}), "CCA": reflect.TypeOf(cdt.AccountDebitResponse{}),
}

type FillStats struct{ OptionalPresent, Extreme int }

func FillDiam(t *rapid.T, v reflect.Value, depth int, st *FillStats) {
	switch x := v.Interface().(type) {
	case datatype.Unsigned32:
		k := rapid.SampledFrom([]uint32{0, 1, 1 << 31, 1<<32 - 1, 7, 4006}).Draw(t, "u32")
		if rapid.Bool().Draw(t, "u32any") {
			k = rapid.Uint32().Draw(t, "u32v")
		}
		if k == 1<<32-1 || k == 1<<31 {
			st.Extreme++
		}
		v.Set(reflect.ValueOf(datatype.Unsigned32(k)))
		return
	case datatype.Unsigned64:
		k := rapid.SampledFrom([]uint64{0, 1, 1 << 31, 1 << 32, 1<<63 - 1, 1 << 63, 1<<64 - 1, 12345}).Draw(t, "u64")
		if rapid.Bool().Draw(t, "u64any") {
			k = rapid.Uint64().Draw(t, "u64v")
		}
		if k >= 1<<63-1 {
			st.Extreme++
		}
		v.Set(reflect.ValueOf(datatype.Unsigned64(k)))
		return
	case datatype.Integer32:
		k := rapid.SampledFrom([]int32{0, 1, -1, 1<<31 - 1, -1 << 31, -7}).Draw(t, "i32")
		if rapid.Bool().Draw(t, "i32any") {
			k = rapid.Int32().Draw(t, "i32v")
		}
		if k == 1<<31-1 || k == -1<<31 {
			st.Extreme++
		}
		v.Set(reflect.ValueOf(datatype.Integer32(k)))
		return
	case datatype.Integer64:
		k := rapid.SampledFrom([]int64{0, 1, -1, 1<<63 - 1, -1 << 63, -123456789012}).Draw(t, "i64")
		if rapid.Bool().Draw(t, "i64any") {
			k = rapid.Int64().Draw(t, "i64v")
		}
		if k == 1<<63-1 || k == -1<<63 {
			st.Extreme++
		}
		v.Set(reflect.ValueOf(datatype.Integer64(k)))
		return
	case datatype.Enumerated:
		v.Set(reflect.ValueOf(datatype.Enumerated(rapid.SampledFrom([]int32{0, 1, 2, 3, 4, 1<<31 - 1}).Draw(t, "enum"))))
		return
	case datatype.UTF8String:
		v.Set(reflect.ValueOf(datatype.UTF8String(GenStr(t, "utf8", true))))
		return
	case datatype.OctetString:
		v.Set(reflect.ValueOf(datatype.OctetString(GenStr(t, "octets", false))))
		return
	case datatype.DiameterIdentity:
		v.Set(reflect.ValueOf(datatype.DiameterIdentity(GenStr(t, "identity", false))))
		return
	case datatype.IPFilterRule:
		v.Set(reflect.ValueOf(datatype.IPFilterRule(GenStr(t, "rule", false))))
		return
	case datatype.Time:
		sec := rapid.Int64Range(0, 4102444799).Draw(t, "time")
		v.Set(reflect.ValueOf(datatype.Time(time.Unix(sec, 0))))
		return
	case datatype.Grouped:
		_ = x
		return // raw grouped members are left empty (the components never fill them)
	}
	switch v.Kind() {
	case reflect.Int32: // named enumerations (RequestedAction, CcRequestType, ...)
		v.SetInt(int64(rapid.SampledFrom([]int32{0, 1, 2, 3, 4}).Draw(t, "namedEnum")))
	case reflect.Ptr:
		if v.Type().Elem().Kind() == reflect.Struct && depth < 5 && rapid.Bool().Draw(t, "present") {
			st.OptionalPresent++
			v.Set(reflect.New(v.Type().Elem()))
			FillDiam(t, v.Elem(), depth+1, st)
		}
	case reflect.Struct:
		for i := 0; i < v.NumField(); i++ {
			if _, isTime := v.Field(i).Interface().(datatype.Time); !isTime && rapid.IntRange(0, 3).Draw(t, "skipField") == 0 && v.Field(i).Kind() != reflect.Ptr {
				continue // zero value: the AVP is not sent (timestamps are always set by the components)
			}
			FillDiam(t, v.Field(i), depth, st)
		}
	}
}

func GenStr(t *rapid.T, n string, unicode bool) string {
	switch rapid.IntRange(0, 5).Draw(t, n+"Class") {
	case 0:
		return ""
	case 1:
		return "x"
	case 2:
		return strings.Repeat("a", 255)
	case 3:
		return strings.Repeat("Z", 4096)
	case 4:
		if unicode {
			return "séssion-ü-日本"
		}
		return "server.example.org"
	}
	return rapid.StringMatching(`[a-z0-9;.]{1,20}`).Draw(t, n)
}

func SetTimes(v reflect.Value, sec int64) {
	if _, ok := v.Interface().(datatype.Time); ok {
		v.Set(reflect.ValueOf(datatype.Time(time.Unix(sec, 0))))
		return
	}
	switch v.Kind() {
	case reflect.Ptr:
		if !v.IsNil() {
			SetTimes(v.Elem(), sec)
		}
	case reflect.Struct:
		for i := 0; i < v.NumField(); i++ {
			SetTimes(v.Field(i), sec)
		}
	}
}

func CountFeatures(v reflect.Value, st *FillStats) {
	switch x := v.Interface().(type) {
	case datatype.Unsigned32:
		if x == 1<<32-1 || x == 1<<31 {
			st.Extreme++
		}
		return
	case datatype.Unsigned64:
		if x >= 1<<63-1 {
			st.Extreme++
		}
		return
	case datatype.Integer32:
		if x == 1<<31-1 || x == -1<<31 {
			st.Extreme++
		}
		return
	case datatype.Integer64:
		if x == 1<<63-1 || x == -1<<63 {
			st.Extreme++
		}
		return
	case datatype.Time:
		return
	}
	switch v.Kind() {
	case reflect.Ptr:
		if !v.IsNil() {
			st.OptionalPresent++
			CountFeatures(v.Elem(), st)
		}
	case reflect.Struct:
		for i := 0; i < v.NumField(); i++ {
			CountFeatures(v.Field(i), st)
		}
	}
}

// DiffValues compares field by field; pointers by content; Time by second.
func DiffValues(a, b reflect.Value, path string) string {
	if ta, ok := a.Interface().(datatype.Time); ok {
		tb := b.Interface().(datatype.Time)
		if time.Time(ta).Unix() != time.Time(tb).Unix() {
			return fmt.Sprintf("%s: sent %v, received %v", path, time.Time(ta).Unix(), time.Time(tb).Unix())
		}
		return ""
	}
	if _, ok := a.Interface().(datatype.Grouped); ok {
		return "" // raw grouped placeholders: never filled by the components, not among the fields the property lists
	}
	switch a.Kind() {
	case reflect.Ptr:
		if a.IsNil() != b.IsNil() {
			return fmt.Sprintf("%s: sent present=%v, received present=%v", path, !a.IsNil(), !b.IsNil())
		}
		if a.IsNil() {
			return ""
		}
		return DiffValues(a.Elem(), b.Elem(), path)
	case reflect.Struct:
		for i := 0; i < a.NumField(); i++ {
			if d := DiffValues(a.Field(i), b.Field(i), path+"."+a.Type().Field(i).Name); d != "" {
				return d
			}
		}
		return ""
	case reflect.Slice:
		if !bytes.Equal(a.Bytes(), b.Bytes()) {
			return fmt.Sprintf("%s: sent %x, received %x", path, trunc(a.Bytes()), trunc(b.Bytes()))
		}
		return ""
	}
	if !reflect.DeepEqual(a.Interface(), b.Interface()) {
		return fmt.Sprintf("%s: sent %v, received %v", path, short(a.Interface()), short(b.Interface()))
	}
	return ""
}

func trunc(b []byte) []byte {
	if len(b) > 24 {
		return b[:24]
	}
	return b
}
func short(x interface{}) string {
	s := fmt.Sprint(x)
	if len(s) > 60 {
		return s[:60] + "..."
	}
	return s
}
