package stack

import (
	"fmt"

	"pgregory.net/rapid"

	"verifharness/h"
)

type genOpts struct {
	maxSubs, maxSess int
	compliant        bool // used volume relative to the last grant (C06)
	distinctRG       bool // at most one unit usage per rating group per request
	minOps, maxOps   int
	recharge         bool
	offline          bool // offline / suspended containers too
	names            []string
	jumbo            bool
	lowBalance       bool
	events           bool // one-time events among the operations
	rgNums           bool // the three rating groups carry other numbers than 1, 2, 3 on the wire (0, large, sparse)
	mixCompliant     bool // some containers report a share of the last grant (also all of it), others an absolute volume
	bigCost          bool // unit costs up to 2^24 too, with volumes kept small enough for every price to fit 32 bits
}

var bigCosts = []int{1, 2, 7, 1000, 4294, 65535, 65536, 1 << 20, 1 << 24}

var costs = []int{1, 1, 2, 3, 7, 10, 50, 1000}

func genSub(t *rapid.T, o genOpts) Sub {
	var s Sub
	for i := range s.Acct {
		c := rapid.SampledFrom(costs).Draw(t, "cost")
		if o.bigCost && rapid.Bool().Draw(t, "bigCost") {
			c = rapid.SampledFrom(bigCosts).Draw(t, "costBig")
		}
		cls := []int{0, 1, 2, 3, 4, 5}
		if o.lowBalance {
			cls = []int{0, 1, 2, 3, 3, 3, 4, 4}
		}
		var b int64
		switch rapid.SampledFrom(cls).Draw(t, "balClass") {
		case 0:
			b = 0
		case 1:
			b = int64(c) - 1
		case 2:
			b = int64(c)
		case 3:
			b = int64(c) * int64(rapid.IntRange(1, 250).Draw(t, "balSmall"))
		case 4:
			b = int64(c) * int64(rapid.IntRange(250, 40000).Draw(t, "balMid"))
		default:
			b = 1_000_000_000_000
		}
		s.Acct[i] = Acct{Cost: c, Bal: b}
	}
	return s
}

func genVolume(t *rapid.T, name string, max int32) int32 {
	v := int32(0)
	switch rapid.IntRange(0, 5).Draw(t, name+"Class") {
	case 0:
		v = 0
	case 1:
		v = 1
	case 2, 3:
		v = int32(rapid.IntRange(2, 300).Draw(t, name))
	case 4:
		v = 10000
	default:
		v = int32(rapid.IntRange(300, int(max)).Draw(t, name))
	}
	if v > max {
		v = max
	}
	return v
}

// volCap is the largest volume whose price - for the used volume of an entry, summed over its (at most three)
// containers, and for the requested volume - still fits the Unsigned32 price / monetary-quota AVPs at the
// subscriber's dearest tariff.
func volCap(s Sub) int32 {
	maxCost := 1
	for _, a := range s.Acct {
		if a.Cost > maxCost {
			maxCost = a.Cost
		}
	}
	c := int64(1<<32-1) / int64(maxCost)
	if c > 1_000_000 {
		c = 1_000_000
	}
	if c < 1 {
		c = 1
	}
	return int32(c)
}

func capVol(v, cap int32) int32 {
	if cap > 0 && v > cap {
		return cap
	}
	return v
}

func genUUs(t *rapid.T, o genOpts, create bool, cap int32) []UU {
	n := rapid.IntRange(1, 3).Draw(t, "nUU")
	if rapid.IntRange(0, 11).Draw(t, "noUsageAtAll") == 0 {
		n = 0 // a request that carries no multipleUnitUsage at all
	}
	var out []UU
	used := map[int32]bool{}
	for i := 0; i < n; i++ {
		rg := int32(rapid.IntRange(1, 3).Draw(t, "rg"))
		if o.distinctRG && used[rg] {
			continue
		}
		used[rg] = true
		u := UU{RG: rg, Req: capVol(genVolume(t, "req", 1_000_000), cap)}
		if !create {
			nc := rapid.IntRange(1, 3).Draw(t, "nConts")
			if o.offline && rapid.IntRange(0, 9).Draw(t, "noConts") == 0 {
				nc = 0
			}
			for j := 0; j < nc; j++ {
				c := Cont{Q: "online", Pm: -1}
				if o.offline {
					c.Q = rapid.SampledFrom([]string{"online", "online", "online", "offline", "suspended"}).Draw(t, "q")
				}
				if o.compliant || (o.mixCompliant && rapid.Bool().Draw(t, "share")) {
					// shares of the last grant that together never exceed it
					c.Pm = rapid.SampledFrom([]int{0, 1000 / nc, 1000 / nc, 500 / nc, 100 / nc, 999 / nc}).Draw(t, "pm")
				} else {
					c.Tot = capVol(genVolume(t, "tot", 700_000), cap/3)
				}
				c.Up = int32(rapid.IntRange(0, 5000).Draw(t, "up"))
				c.Down = int32(rapid.IntRange(0, 5000).Draw(t, "down"))
				c.SSU = int32(rapid.IntRange(0, 9).Draw(t, "ssu"))
				u.Conts = append(u.Conts, c)
			}
			if o.jumbo && rapid.IntRange(0, 7).Draw(t, "jumbo") == 0 {
				u.Jumbo = rapid.SampledFrom([]int{100, 300, 1000, 2000, 3000, 4000}).Draw(t, "jumboN")
			}
			if o.jumbo && rapid.IntRange(0, 7).Draw(t, "quotaOnly") == 0 {
				u.QOnly = rapid.SampledFrom([]int{60, 500, 2000}).Draw(t, "quotaOnlyN")
			}
		}
		out = append(out, u)
	}
	return out
}

func genHist(t *rapid.T, o genOpts) Hist {
	var hst Hist
	ns := rapid.IntRange(1, o.maxSubs).Draw(t, "nSubs")
	for i := 0; i < ns; i++ {
		hst.Subs = append(hst.Subs, genSub(t, o))
	}
	if o.rgNums && rapid.IntRange(0, 2).Draw(t, "otherRGNums") != 0 {
		hst.RGNums = rapid.SampledFrom([][]int32{{0, 1, 2}, {7, 0, 100}, {2147483647, 65536, 255}, {10, 20, 30}, {3, 2, 1}, {256, 0, 2147483646}}).Draw(t, "rgNums")
	}
	names := o.names
	if names == nil {
		names = []string{"smf", "smf1", "smf11", "", "1", "11", "smf%41", "100%25", "smf-münchen"}
	}
	nops := rapid.IntRange(o.minOps, o.maxOps).Draw(t, "nOps")
	liveCount := make([]int, ns)
	for i := 0; i < nops; i++ {
		s := rapid.IntRange(0, ns-1).Draw(t, "sub")
		kinds := []string{"update", "update", "update", "update", "update", "update", "release", "create"}
		if o.recharge {
			kinds = append(kinds, "recharge")
		}
		k := rapid.SampledFrom(kinds).Draw(t, "kind")
		if o.events && rapid.IntRange(0, 8).Draw(t, "event") == 0 {
			// a one-time event reporting offline usage (no credit control: the accounting properties are not involved)
			op := Op{K: "event", S: s, UUs: []UU{{RG: int32(rapid.IntRange(1, 3).Draw(t, "erg")), Req: 1,
				Conts: []Cont{{Q: "offline", Tot: int32(rapid.IntRange(0, 999).Draw(t, "etot")), Up: 1, Down: 2, SSU: 3, Pm: -1}}}}}
			if rapid.Bool().Draw(t, "twoContainers") {
				op.UUs[0].Conts = append(op.UUs[0].Conts, Cont{Q: "offline", Tot: 7, Pm: -1})
			}
			hst.Ops = append(hst.Ops, op)
			continue
		}
		if liveCount[s] == 0 && k != "recharge" {
			k = "create"
		}
		if k == "create" && liveCount[s] >= o.maxSess {
			k = "update"
		}
		op := Op{K: k, S: s}
		switch k {
		case "create":
			op.UUs = genUUs(t, o, true, volCap(hst.Subs[s]))
			op.Name = rapid.SampledFrom(names).Draw(t, "name")
			op.Plmn = rapid.Bool().Draw(t, "plmn")
			op.Addr = rapid.Bool().Draw(t, "addr")
			op.Pdu = rapid.SampledFrom([]int{0, 0, 1, 2}).Draw(t, "pdu")
			op.NSt = rapid.SampledFrom([]int{0, 0, 0, 400, 307, 200, 404, 500}).Draw(t, "notifyStatus")
			liveCount[s]++
		case "update":
			op.Sess = rapid.IntRange(0, 2).Draw(t, "sess")
			op.UUs = genUUs(t, o, false, volCap(hst.Subs[s]))
			op.Trig = rapid.SampledFrom([]string{"", "", "", "", "", "FINAL", "VOLUME_LIMIT", "MAX_CHANGES", "MGMT", "QUOTA_THRESHOLD"}).Draw(t, "trig")
		case "release":
			op.Sess = rapid.IntRange(0, 2).Draw(t, "sess")
			op.UUs = genUUs(t, o, false, volCap(hst.Subs[s]))
			op.Trig = rapid.SampledFrom([]string{"FINAL", "FINAL", "FINAL", ""}).Draw(t, "trig")
			liveCount[s]--
		case "recharge":
			op.RG = int32(rapid.IntRange(1, 3).Draw(t, "rrg"))
			op.Amt = int64(rapid.SampledFrom([]int{1, 10, 1000, 100000, 50000000}).Draw(t, "amt"))
		}
		hst.Ops = append(hst.Ops, op)
	}
	return hst
}

// Volume: a history in which counts cross the sizes a few dozen operations never reach - hundreds of sessions open
// at once for one subscriber, hundreds of closed records behind one long-lived session, thousands of other
// subscribers served by the same process in between (more than 65536 with big) - around subscribers whose state is
// checked like in any other history: a long-lived session opened first and used last, subscribers that come back
// with a new session after everybody else, subscribers without money that ask for quota once the process is crowded.
func genVolumeHist(t *rapid.T, big bool) Hist {
	var hst Hist
	cost := rapid.SampledFrom([]int{1, 3, 7}).Draw(t, "cost")
	opens := rapid.IntRange(270, 330).Draw(t, "opens")
	churn := rapid.IntRange(530, 600).Draw(t, "churn")
	const early, broke = 12, 12
	rich := [3]Acct{{cost, 1 << 40}, {cost, 1 << 40}, {cost, 5000}}
	hst.Subs = []Sub{{Acct: rich}, {Acct: rich}, {Acct: rich}}
	for i := 0; i < early; i++ {
		hst.Subs = append(hst.Subs, Sub{Acct: [3]Acct{{cost, 100000}, {cost, 100000}, {cost, 100000}}})
	}
	for i := 0; i < broke; i++ {
		hst.Subs = append(hst.Subs, Sub{Acct: [3]Acct{{cost, int64(i%2) * int64(cost) * 40}, {cost, 0}, {cost, 7}}})
	}
	hst.Subs = append(hst.Subs, Sub{Acct: rich})
	const a, b, c, e0 = 0, 1, 2, 3
	m0, d := e0+early, e0+early+broke
	add := func(op Op) { hst.Ops = append(hst.Ops, op) }
	on := func(rg, req, tot int32) []UU {
		return []UU{{RG: rg, Req: req, Conts: []Cont{{Q: "online", Tot: tot, Pm: -1}, {Q: "offline", Tot: tot + 1, Up: 1, Down: 2, SSU: 3, Pm: -1}}}}
	}
	// the long-lived sessions
	add(Op{K: "create", S: a, Name: "smf", UUs: []UU{{RG: 1, Req: 100}}})
	add(Op{K: "update", S: a, UUs: on(1, 100, 40)})
	add(Op{K: "create", S: b, Name: "smf", UUs: []UU{{RG: 1, Req: 100}}})
	add(Op{K: "create", S: c, Name: "smf", UUs: []UU{{RG: 2, Req: 100}}})
	add(Op{K: "update", S: c, UUs: on(2, 100, 30)})
	// one subscriber with hundreds of sessions open at once
	for i := 0; i < opens; i++ {
		add(Op{K: "create", S: b, Name: fmt.Sprintf("smf%d", i%7)})
	}
	add(Op{K: "update", S: b, Sess: 0, UUs: on(1, 100, 20)})
	add(Op{K: "update", S: b, Sess: opens - 5, UUs: on(2, 50, 10)})
	add(Op{K: "update", S: b, Sess: 257, UUs: on(2, 50, 10)})
	// one subscriber with hundreds of closed records behind its long-lived session
	for i := 0; i < churn; i++ {
		add(Op{K: "create", S: c, Name: "smf"})
		if i%40 == 7 {
			add(Op{K: "update", S: c, Sess: 1, UUs: on(3, 10, 1)})
			add(Op{K: "update", S: c, Sess: 0, UUs: on(2, 100, 5)})
		}
		add(Op{K: "release", S: c, Sess: 1})
	}
	add(Op{K: "update", S: c, Sess: 0, UUs: on(2, 100, 30)})
	// the process gets crowded - more than 1024 subscriber contexts, all with a session open - and all along, by
	// turns, a subscriber gets quota, uses part of it and leaves without a final report (the rest stays reserved), and
	// a subscriber without money arrives and asks for quota
	for i := 0; i < early; i++ {
		add(Op{K: "bystanders", S: a, N: 100, Sess: 1})
		add(Op{K: "create", S: e0 + i, Name: "smf", UUs: []UU{{RG: 1, Req: 100}}})
		add(Op{K: "update", S: e0 + i, UUs: on(1, 100, 30)})
		add(Op{K: "release", S: e0 + i})
		add(Op{K: "create", S: m0 + i, Name: "smf", UUs: []UU{{RG: 1, Req: 100}}})
		add(Op{K: "update", S: m0 + i, UUs: []UU{{RG: 1, Req: 100, Conts: []Cont{{Q: "online", Tot: 0, Pm: 0}}}, {RG: 2, Req: 50}}})
	}
	// ... more than 10000
	add(Op{K: "bystanders", S: a, N: 9000})
	for i := 0; i < early; i++ {
		add(Op{K: "create", S: e0 + i, Name: "smf", UUs: []UU{{RG: 1, Req: 100}}})
		add(Op{K: "update", S: e0 + i, UUs: on(1, 100, 50)})
		if i%2 == 0 {
			add(Op{K: "release", S: e0 + i, Trig: "FINAL", UUs: on(1, 0, 10)})
		}
	}
	for i := 0; i < broke; i++ {
		add(Op{K: "update", S: m0 + i, UUs: []UU{{RG: 1, Req: 100, Conts: []Cont{{Q: "online", Tot: 0, Pm: 0}}}}})
	}
	if big {
		// ... and more than 65536 records opened by the process
		add(Op{K: "bystanders", S: a, N: 61000, Sess: 1})
	}
	// two sessions of one subscriber and consumer, opened while (with big) more than 65535 sessions are open and none
	// has been closed since
	add(Op{K: "create", S: d, Name: "smf"})
	add(Op{K: "create", S: d, Name: "smf"})
	add(Op{K: "update", S: d, Sess: 0, UUs: on(2, 10, 3)})
	add(Op{K: "update", S: d, Sess: 1, UUs: on(2, 10, 4)})
	add(Op{K: "release", S: d, Sess: 0})
	add(Op{K: "release", S: d, Sess: 0})
	// everybody is still served
	add(Op{K: "update", S: a, UUs: on(1, 100, 40)})
	add(Op{K: "update", S: b, Sess: 0, UUs: on(1, 100, 20)})
	add(Op{K: "update", S: b, Sess: opens / 2, UUs: on(3, 20, 5)})
	add(Op{K: "update", S: c, Sess: 0, UUs: on(2, 100, 30)})
	add(Op{K: "create", S: d, Name: "smf", UUs: []UU{{RG: 1, Req: 100}}})
	add(Op{K: "update", S: d, UUs: on(1, 100, 60)})
	add(Op{K: "update", S: d, UUs: on(1, 100, 60)})
	add(Op{K: "release", S: d, Trig: "FINAL", UUs: on(1, 0, 10)})
	add(Op{K: "release", S: b, Sess: 3})
	add(Op{K: "release", S: a, Trig: "FINAL", UUs: on(1, 0, 10)})
	add(Op{K: "create", S: a, Name: "smf", UUs: []UU{{RG: 1, Req: 100}}})
	add(Op{K: "update", S: a, UUs: on(1, 100, 40)})
	return hst
}

func volumeOf(j func(Hist) *h.Verdict, big bool) func(Hist) *h.Verdict {
	return func(hst Hist) *h.Verdict {
		v := j(hst)
		v.Label("sessions-open-at-once>256")
		v.Label("records-of-one-subscriber>512")
		v.Label("subscribers-in-the-process>10000")
		if big {
			v.Label("records-opened-by-the-process>65536")
			v.Label("sessions-open-in-the-process>65535")
		}
		v.NonTrivial = true
		return v
	}
}
