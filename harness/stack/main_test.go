package stack

import (
	"fmt"
	"os"
	"testing"

	"github.com/free5gc/chf/verifapi"
	"verifharness/stackenv"
)

func TestMain(m *testing.M) {
	var err error
	env, err = stackenv.Start(stackenv.Options{})
	if err != nil {
		fmt.Fprintln(os.Stderr, "HARNESS: cannot start the in-process stack:", err)
		os.Exit(2)
	}
	engine, err = verifapi.NewEngine()
	if err != nil {
		fmt.Fprintln(os.Stderr, "HARNESS: cannot build the router:", err)
		os.Exit(2)
	}
	code := m.Run()
	env.Cleanup()
	os.Exit(code)
}
