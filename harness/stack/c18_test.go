package stack

import (
	"bufio"
	"fmt"
	"os"
	"runtime"
	"strconv"
	"strings"
	"testing"
	"time"

	"pgregory.net/rapid"

	"verifharness/h"
)

// C18Case: a history of online-charging updates of growing length.
type C18Case struct {
	Subs  int   `json:"subs"`  // 1 or 3 subscribers
	N     []int `json:"n"`     // checkpoints (cumulative number of updates)
	Req   int32 `json:"req"`   // requested volume
	UsedP int   `json:"usedP"` // per-mille of the grant used each time
	Cost  int   `json:"cost"`
	RGs   int   `json:"rgs"` // rating groups per request (1-3): 2-3 Diameter exchanges each
}

type resCount struct{ conns, goroutines, diamGoroutines int }

func countPeerConns() int {
	n := 0
	for _, f := range []string{"/proc/self/net/tcp", "/proc/self/net/tcp6"} {
		fh, err := os.Open(f)
		if err != nil {
			continue
		}
		sc := bufio.NewScanner(fh)
		for sc.Scan() {
			fs := strings.Fields(sc.Text())
			if len(fs) < 4 || fs[3] != "01" { // ESTABLISHED
				continue
			}
			rem := fs[2]
			i := strings.LastIndex(rem, ":")
			if i < 0 {
				continue
			}
			p, err := strconv.ParseInt(rem[i+1:], 16, 32)
			if err == nil && (int(p) == env.RfPort || int(p) == env.AbmfPort) {
				n++
			}
		}
		fh.Close()
	}
	return n
}

func countDiamGoroutines() int {
	buf := make([]byte, 64<<20)
	n := runtime.Stack(buf, true)
	s := string(buf[:n])
	return strings.Count(s, "sm.(*Client).watchdog") + strings.Count(s, "diam.(*conn).serve(")
}

// countClientGoroutines counts the goroutines that have a frame of the CHF's own Diameter client packages on their
// stack (helpers a request starts beside the library's reader and watchdog tasks).
func countClientGoroutines() (int, string) {
	buf := make([]byte, 64<<20)
	n := runtime.Stack(buf, true)
	cnt, sample := 0, ""
	for _, g := range strings.Split(string(buf[:n]), "\n\n") {
		if strings.Contains(g, "chf/internal/abmf.") || strings.Contains(g, "chf/internal/rating.") {
			cnt++
			if sample == "" {
				sample = g
			}
		}
	}
	return cnt, sample
}

// settle polls until the counts are stable (or 4 s passed).
func settle() resCount {
	var last resCount
	stable := 0
	for i := 0; i < 40; i++ {
		cur := resCount{countPeerConns(), runtime.NumGoroutine(), 0}
		if cur == last {
			stable++
			if stable >= 3 {
				break
			}
		} else {
			stable = 0
		}
		last = cur
		time.Sleep(100 * time.Millisecond)
	}
	last.diamGoroutines = countDiamGoroutines()
	return last
}

func judgeC18(c C18Case) *h.Verdict {
	v := &h.Verdict{}
	var hst Hist
	for i := 0; i < c.Subs; i++ {
		hst.Subs = append(hst.Subs, Sub{Acct: [3]Acct{{c.Cost, 1 << 50}, {c.Cost, 1 << 50}, {c.Cost, 1 << 50}}})
	}
	w := NewWorld(hst)
	for i := 0; i < c.Subs; i++ {
		if r := w.Exec(Op{K: "create", S: i, Name: "smf", UUs: []UU{{RG: 1, Req: c.Req}}}); r.Status != 201 {
			return v.Failf("valid-request-rejected/create", "create answered %d", r.Status)
		}
	}
	done := 0
	var base resCount
	var counts []resCount
	for ci, target := range c.N {
		for ; done < target; done++ {
			var uus []UU
			for rg := 1; rg <= c.RGs; rg++ {
				uus = append(uus, UU{RG: int32(rg), Req: c.Req, Conts: []Cont{{Q: "online", Pm: c.UsedP}}})
			}
			r := w.Exec(Op{K: "update", S: done % c.Subs, UUs: uus})
			if timedOut(r) {
				v.Skipped = true
				return v
			}
			if r.Status != 200 {
				return v.Failf("valid-request-rejected/update", "update %d answered %d %.200s", done, r.Status, r.Body)
			}
		}
		rc := settle()
		counts = append(counts, rc)
		if ci == 0 {
			base = rc
			continue
		}
		if target >= 100 && c.RGs >= 1 {
			v.NT(fmt.Sprintf("N>=%d", target))
		}
		const slackConns, slackGo = 8, 24
		if rc.conns > base.conns+slackConns {
			return v.Failf("connections-grow", "after %d updates %d connections to the rating/account peers are open, after %d updates there were %d (bound: +%d); counts per checkpoint %v: %+v", target, rc.conns, c.N[0], base.conns, slackConns, c.N, counts)
		}
		if rc.diamGoroutines > base.diamGoroutines+slackGo || rc.goroutines > base.goroutines+4*slackGo {
			return v.Failf("tasks-grow", "after %d updates %d goroutines (%d Diameter watchdog/serve tasks), after %d updates there were %d (%d) (bound: +%d); counts per checkpoint %v: %+v", target, rc.goroutines, rc.diamGoroutines, c.N[0], base.goroutines, base.diamGoroutines, slackGo, c.N, counts)
		}
	}
	rec18.Extra(fmt.Sprintf("conns_after_%d_updates", done), float64(counts[len(counts)-1].conns))
	rec18.Extra(fmt.Sprintf("goroutines_after_%d_updates", done), float64(counts[len(counts)-1].goroutines))
	// release everything: a completed session leaves nothing behind either
	for i := 0; i < c.Subs; i++ {
		w.Exec(Op{K: "release", S: i, UUs: []UU{{RG: 1, Req: 0, Conts: []Cont{{Q: "online", Pm: 0}}}}, Trig: "FINAL"})
	}
	return v
}

var rec18 *h.Recorder

func genC18(t *rapid.T) C18Case {
	c := C18Case{Subs: rapid.SampledFrom([]int{1, 3}).Draw(t, "subs"), Req: int32(rapid.SampledFrom([]int{1, 10, 1000}).Draw(t, "req")),
		UsedP: rapid.SampledFrom([]int{0, 500, 1000}).Draw(t, "usedP"), Cost: rapid.SampledFrom([]int{1, 3}).Draw(t, "cost"), RGs: rapid.IntRange(1, 3).Draw(t, "rgs")}
	if h.Thorough() {
		c.N = []int{10, 100, rapid.SampledFrom([]int{300, 1000}).Draw(t, "n")}
	} else {
		c.N = []int{10, rapid.SampledFrom([]int{100, 150}).Draw(t, "n")}
	}
	return c
}

func TestC18Bounded(t *testing.T) {
	rec18 = h.NewRecorder("C18", "growth")
	h.RunWith(t, rec18, genC18, judgeC18)
}

// Unanswered exchanges: updates for a rating group that has no account make the
// rating and account servers stay silent, so every exchange ends in the
// client's 5 s timeout.  A request that completed this way must not leave a
// connection, watchdog or reader task behind either.
type C18Silent struct {
	Subs int `json:"subs"` // subscribers issuing one such update each, concurrently
	Reps int `json:"reps"`
}

func judgeC18Silent(c C18Silent) *h.Verdict {
	v := &h.Verdict{NonTrivial: true}
	v.Label("unanswered-exchanges")
	var hst Hist
	for i := 0; i < c.Subs; i++ {
		hst.Subs = append(hst.Subs, Sub{Acct: [3]Acct{{1, 1000}, {1, 1000}, {1, 1000}}})
	}
	w := NewWorld(hst)
	type sessT struct {
		supi, ref string
		id        int32
	}
	var ss []sessT
	for i := 0; i < c.Subs; i++ {
		r := w.Exec(Op{K: "create", S: i, Name: "smf", UUs: []UU{{RG: 1, Req: 10}}})
		if r.Status != 201 {
			return v.Failf("valid-request-rejected/create", "create answered %d", r.Status)
		}
		// one answered update first, so that the subscriber's clients have been used
		if r2 := w.Exec(Op{K: "update", S: i, UUs: []UU{{RG: 1, Req: 10, Conts: []Cont{{Q: "online", Pm: 0}}}}}); r2.Status != 200 {
			return v.Failf("valid-request-rejected/update", "update answered %d", r2.Status)
		}
		ss = append(ss, sessT{w.subs[i].supi, r.Sess.ref, r.Sess.chargingID})
	}
	base := settle()
	baseClient, _ := countClientGoroutines()
	for rep := 0; rep < c.Reps; rep++ {
		done := make(chan int, len(ss))
		for i, s := range ss {
			go func(i int, s sessT) {
				code, _, _ := doHTTP("POST", prefix+"/chargingdata/"+s.ref+"/update", mkUpdateBody(s.supi, s.id, 7, 10, 0, int32(9000+100*rep+i), ""), nil)
				done <- code
			}(i, s)
		}
		for range ss {
			select {
			case code := <-done:
				if code != 200 {
					return v.Failf("valid-request-rejected/update", "update for a rating group without account answered %d", code)
				}
			case <-time.After(90 * time.Second):
				return v.Failf("request-hangs", "an update whose exchanges go unanswered did not return within 90 s")
			}
		}
	}
	time.Sleep(7 * time.Second) // one watchdog interval, so that tasks that are going to end have ended
	rc := settle()
	n := c.Subs * c.Reps
	if rc.conns > base.conns+2 {
		return v.Failf("connections-left-after-timeouts", "%d updates whose exchanges timed out left %d connections to the peers open (before: %d)", n, rc.conns, base.conns)
	}
	if cl, sample := countClientGoroutines(); cl > baseClient {
		return v.Failf("tasks-left-after-timeouts/client-helper", "%d updates whose exchanges timed out left %d goroutines started by the CHF's Diameter clients behind (before: %d), e.g.\n%.1500s", n, cl, baseClient, sample)
	}
	if rc.diamGoroutines > base.diamGoroutines+2 {
		return v.Failf("tasks-left-after-timeouts", "%d updates whose exchanges timed out left %d Diameter watchdog/reader tasks behind (before: %d); all goroutines %d -> %d", n, rc.diamGoroutines, base.diamGoroutines, base.goroutines, rc.goroutines)
	}
	return v
}

func TestC18Silent(t *testing.T) {
	h.Run(t, "C18", "silent", func(t *rapid.T) C18Silent {
		return C18Silent{Subs: rapid.SampledFrom([]int{4, 6, 8}).Draw(t, "subs"), Reps: h.Scale(2, 3)}
	}, judgeC18Silent)
}

// Growth with the number of subscribers: every subscriber is served completely (create, updates, release); what
// is left behind must not grow with how many subscribers have been served.
type C18Subs struct {
	First int `json:"first"` // subscribers served before the base count is taken
	More  int `json:"more"`  // subscribers served afterwards
	RGs   int `json:"rgs"`
}

func judgeC18Subs(c C18Subs) *h.Verdict {
	v := &h.Verdict{NonTrivial: true}
	v.Label(fmt.Sprintf("subscribers>=%d", c.More/50*50))
	var hst Hist
	for i := 0; i < c.First+c.More; i++ {
		hst.Subs = append(hst.Subs, Sub{Acct: [3]Acct{{1, 1 << 40}, {1, 1 << 40}, {1, 1 << 40}}})
	}
	w := NewWorld(hst)
	serve := func(i int) *h.Verdict {
		if r := w.Exec(Op{K: "create", S: i, Name: "smf", UUs: []UU{{RG: 1, Req: 10}}}); r.Status != 201 {
			return v.Failf("valid-request-rejected/create", "create answered %d", r.Status)
		}
		var uus []UU
		for rg := 1; rg <= c.RGs; rg++ {
			uus = append(uus, UU{RG: int32(rg), Req: 10, Conts: []Cont{{Q: "online", Pm: 500}}})
		}
		for k := 0; k < 2; k++ {
			r := w.Exec(Op{K: "update", S: i, UUs: uus})
			if timedOut(r) {
				v.Skipped = true
				return v
			}
			if r.Status != 200 {
				return v.Failf("valid-request-rejected/update", "update answered %d %.200s", r.Status, r.Body)
			}
		}
		if r := w.Exec(Op{K: "release", S: i, UUs: []UU{{RG: 1, Req: 0, Conts: []Cont{{Q: "online", Pm: 0}}}}, Trig: "FINAL"}); r.Status != 204 {
			return v.Failf("valid-request-rejected/release", "release answered %d", r.Status)
		}
		return nil
	}
	for i := 0; i < c.First; i++ {
		if bad := serve(i); bad != nil {
			return bad
		}
	}
	base := settle()
	for i := c.First; i < c.First+c.More; i++ {
		if bad := serve(i); bad != nil {
			return bad
		}
	}
	rc := settle()
	const slackConns, slackGo = 4, 12
	if rc.conns > base.conns+slackConns {
		return v.Failf("connections-grow-with-subscribers", "after %d more subscribers were served %d connections to the peers are open, before there were %d (bound: +%d)", c.More, rc.conns, base.conns, slackConns)
	}
	if rc.goroutines > base.goroutines+slackGo {
		return v.Failf("tasks-grow-with-subscribers", "after %d more subscribers were served (created, updated, released) there are %d goroutines (%d Diameter watchdog/serve tasks), before there were %d (%d) (bound: +%d)", c.More, rc.goroutines, rc.diamGoroutines, base.goroutines, base.diamGoroutines, slackGo)
	}
	return v
}

func TestC18Subscribers(t *testing.T) {
	h.Run(t, "C18", "subscribers", func(t *rapid.T) C18Subs {
		return C18Subs{First: rapid.IntRange(3, 8).Draw(t, "first"), More: rapid.SampledFrom([]int{50, 100, h.Scale(150, 600)}).Draw(t, "more"), RGs: rapid.IntRange(1, 3).Draw(t, "rgs")}
	}, judgeC18Subs)
}
