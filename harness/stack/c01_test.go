package stack

import (
	"fmt"
	"strings"
	"testing"

	"pgregory.net/rapid"

	"verifharness/h"
)

// identity checks, for every (subscriber, rating group):
//
//	stored balance + held reservation == credited - unitCost * online usage
func checkIdentity(w *World, v *h.Verdict, step int, res *Result) bool {
	for si, st := range w.subs {
		snap := snapshot(st.supi)
		if snap.Locked {
			v.Failf("subscriber-locked", "step %d (%s): subscriber %d is still locked after the request returned", step, res.Op.K, si)
			return false
		}
		for rg := int32(1); rg <= 3; rg++ {
			q, err := acctQuota(st.supi, rg)
			if err != nil {
				v.Failf("quota-unreadable", "step %d: %v", step, err)
				return false
			}
			want := st.credited[rg] - st.cost[rg]*st.usage[rg]
			got := q + snap.Reserved[rg]
			if got != want {
				d := "destroyed"
				if got > want {
					d = "created"
				}
				v.Failf("credit-"+d+"/"+res.Op.K+modeSuffix(res), "step %d (%s, status %d) subscriber %d rg %d: balance %d + reservation %d = %d, but credited %d - cost %d x usage %d = %d (difference %s)",
					step, res.Op.K, res.Status, si, rg, q, snap.Reserved[rg], got, st.credited[rg], st.cost[rg], st.usage[rg], want, fmt.Sprintf("%d; product error log of this request: %q", got-want, res.Logs))
				return false
			}
		}
	}
	return true
}

func modeSuffix(res *Result) string {
	if res.Op.Trig == "FINAL" {
		return "/final"
	}
	return ""
}

func judgeC01(hst Hist) *h.Verdict {
	v := &h.Verdict{}
	w := NewWorld(hst)
	sessPerRG := map[[2]int]map[string]bool{}
	for step, op := range hst.Ops {
		var st *subState
		if len(w.subs) > 0 {
			st = w.subs[op.S%len(w.subs)]
		}
		pre := snapshot(st.supi)
		res := w.Exec(op)
		if res.Skipped {
			continue
		}
		if timedOut(res) {
			// a peer did not answer within the client's 5 s: outside the property's domain (servers reachable and answering)
			v.Skipped = true
			return v
		}
		if len(res.Panics) > 0 {
			v.Failf("handler-panic/"+op.K+"/"+h.PanicFrame(res.Panics[0]), "step %d: handler panicked: %.3000s", step, res.Panics[0])
			return v
		}
		if res.Status >= 400 {
			v.Failf(rejSig(res)+op.K, "step %d: well-formed %s answered %d %.200s", step, op.K, res.Status, res.Body)
			return v
		}
		// classification from what was observed
		if op.K == "update" || op.K == "release" {
			for _, u := range op.UUs {
				var used int64
				online := false
				for _, c := range u.Conts {
					if c.Q == "online" {
						online = true
						used += int64(c.Tot)
					}
				}
				if !online {
					continue
				}
				if used*st.cost[u.RG] >= 1<<31 || int64(u.Req)*st.cost[u.RG] >= 1<<31 {
					v.Label("price>=2^31")
				}
				k := [2]int{op.S % len(w.subs), int(u.RG)}
				if sessPerRG[k] == nil {
					sessPerRG[k] = map[string]bool{}
				}
				sessPerRG[k][res.Sess.ref] = true
				if len(sessPerRG[k]) > 1 {
					v.Label("two-sessions-one-rg")
				}
				if (pre.RatingType[u.RG] == 2 || op.Trig == "FINAL") && pre.Reserved[u.RG] > 0 && used*st.cost[u.RG] == pre.Reserved[u.RG] {
					v.Label("final-price-equals-reservation")
				}
				if pre.RatingType[u.RG] == 2 {
					if used*st.cost[u.RG] < pre.Reserved[u.RG] {
						v.NT("debit-refund")
					} else {
						v.NT("debit-excess")
					}
				} else if pre.Reserved[u.RG] > 0 && used*st.cost[u.RG] >= pre.Reserved[u.RG] {
					v.NT("exhaust")
				}
				if op.Trig == "FINAL" {
					v.Label("final")
				}
			}
			if res.Resp != nil {
				for _, mi := range res.Resp.MultipleUnitInformation {
					if fui(mi) {
						v.NT("fui")
					}
				}
			}
		}
		if op.K == "recharge" && pre.RatingType[op.RG] == 2 {
			v.NT("recharge-after-debit")
		}
		if !checkIdentity(w, v, step, res) {
			return v
		}
		// final debit: unused reservation refunded exactly, nothing held afterwards
		if (op.K == "release" || op.K == "update") && op.Trig == "FINAL" {
			post := snapshot(st.supi)
			for _, u := range op.UUs {
				online := false
				for _, c := range u.Conts {
					online = online || c.Q == "online"
				}
				if online && post.Reserved[u.RG] != 0 {
					v.Failf("reservation-held-after-final-debit", "step %d: after the final debit of rg %d the CHF still holds a reservation of %d", step, u.RG, post.Reserved[u.RG])
					return v
				}
			}
		}
	}
	return v
}

func genC01(t *rapid.T) Hist {
	return genHist(t, genOpts{maxSubs: 3, maxSess: 3, minOps: 4, maxOps: h.Scale(24, 40), recharge: true, offline: true, bigCost: true, mixCompliant: true, rgNums: true})
}

func TestC01Conservation(t *testing.T) { h.Run(t, "C01", "histories", genC01, judgeC01) }

var _ = fmt.Sprint

func timedOut(res *Result) bool {
	for _, m := range res.Logs {
		if strings.Contains(m, "timeout: no rate answer") {
			return true
		}
	}
	return false
}

// Long: one session (or a few) driven through hundreds of requests - counts, sequence numbers and accumulated
// totals far beyond what a history of a few dozen operations reaches; the identity is checked all along.
func genC01Long(t *rapid.T) Hist {
	var hst Hist
	cost := rapid.SampledFrom([]int{1, 3, 7}).Draw(t, "cost")
	hst.Subs = []Sub{{Acct: [3]Acct{{cost, 1 << 40}, {cost, 1 << 40}, {cost, 5000}}}}
	nSess := rapid.IntRange(1, 3).Draw(t, "sessions")
	for i := 0; i < nSess; i++ {
		hst.Ops = append(hst.Ops, Op{K: "create", S: 0, Name: "smf", UUs: []UU{{RG: 1, Req: 100}}})
	}
	n := h.Scale(320, 3000)
	for i := 0; i < n; i++ {
		rg := int32(1 + i%3)
		op := Op{K: "update", S: 0, Sess: i % nSess, UUs: []UU{{RG: rg, Req: int32(50 + i%200), Conts: []Cont{{Q: "online", Tot: int32(1 + i%97), Pm: -1}}}}}
		switch {
		case i%61 == 60:
			op.Trig = "FINAL"
		case i%23 == 22:
			op.Trig = "VOLUME_LIMIT"
		case i%89 == 88:
			op = Op{K: "recharge", S: 0, RG: rg, Amt: 1000}
		case i == n/4:
			op = Op{K: "aged", S: 0, RG: 1, Amt: 500} // ... the rating group's 500th credit-control request
		case i == n/2:
			op = Op{K: "aged", S: 0, RG: 1, Amt: 65530}
		case i == n/2+1:
			op = Op{K: "aged", S: 0, RG: 2, Amt: 1<<31 - 3}
		case i == 3*n/4:
			op = Op{K: "aged", S: 0, RG: 1, Amt: 1<<32 - 4}
		}
		hst.Ops = append(hst.Ops, op)
	}
	return hst
}

func TestC01Long(t *testing.T) {
	h.Run(t, "C01", "long", genC01Long, func(hst Hist) *h.Verdict {
		v := judgeC01(hst)
		v.Label("history>=300-requests")
		v.Label("request-counter-passes-65536")
		v.NonTrivial = true
		return v
	})
}

func TestC01Volume(t *testing.T) {
	h.Run(t, "C01", "volume", func(t *rapid.T) Hist { return genVolumeHist(t, false) }, volumeOf(judgeC01, false))
}
