package stack

import (
	"bytes"
	"fmt"
	"os"
	"testing"
	"time"

	"pgregory.net/rapid"

	"github.com/free5gc/chf/cdr/asn"
	"github.com/free5gc/chf/cdr/cdrConvert"
	"github.com/free5gc/chf/cdr/cdrType"
	"github.com/free5gc/chf/verifapi"
	"verifharness/h"
	"verifharness/oracle"
)

// ------------------------------------------------------------ TS 32.298 BCD

// bcdTimestamp is the independent formatter: YYMMDDhhmmssShhmm, BCD digits,
// S = '+' / '-' as an ASCII octet, hhmm = absolute zone offset.
func bcdTimestamp(t time.Time) []byte {
	_, off := t.Zone()
	sign := byte('+')
	if off < 0 {
		sign = '-'
		off = -off
	}
	bcd := func(n int) byte { return byte(n/10)<<4 | byte(n%10) }
	return []byte{bcd(t.Year() % 100), bcd(int(t.Month())), bcd(t.Day()), bcd(t.Hour()), bcd(t.Minute()), bcd(t.Second()), sign, bcd(off / 3600), bcd(off % 3600 / 60)}
}

// parseBCD decodes a TS 32.298 timestamp to an instant (century 2000).
func parseBCD(b []byte) (time.Time, int, error) {
	if len(b) != 9 {
		return time.Time{}, 0, fmt.Errorf("timestamp has %d octets, want 9", len(b))
	}
	d := func(x byte) (int, error) {
		if x>>4 > 9 || x&15 > 9 {
			return 0, fmt.Errorf("octet %02x is not BCD", x)
		}
		return int(x>>4)*10 + int(x&15), nil
	}
	var f [8]int
	idx := []int{0, 1, 2, 3, 4, 5, 7, 8}
	for i, k := range idx {
		v, err := d(b[k])
		if err != nil {
			return time.Time{}, 0, err
		}
		f[i] = v
	}
	if b[6] != '+' && b[6] != '-' {
		return time.Time{}, 0, fmt.Errorf("sign octet %02x", b[6])
	}
	off := f[6]*3600 + f[7]*60
	if b[6] == '-' {
		off = -off
	}
	if f[7] > 59 || f[6] > 14 {
		return time.Time{}, 0, fmt.Errorf("zone deviation %02d:%02d", f[6], f[7])
	}
	return time.Date(2000+f[0], time.Month(f[1]), f[2], f[3], f[4], f[5], 0, time.FixedZone("", off)), off, nil
}

type tsCase struct {
	Unix int64 `json:"unix"`
	Off  int   `json:"off"` // seconds east of UTC, multiple of 60
}

func judgeTS(c tsCase) *h.Verdict {
	v := &h.Verdict{}
	t := time.Unix(c.Unix, 0).In(time.FixedZone("x", c.Off))
	switch {
	case c.Off < 0 && c.Off%3600 != 0:
		v.NT("negative-non-hour-zone")
	case c.Off < 0:
		v.NT("negative-zone")
	case c.Off%3600 != 0:
		v.NT("non-hour-zone")
	default:
		v.Label("hour-aligned-non-negative")
	}
	var got cdrType.TimeStamp
	if p, val, st := h.Safely(func() { got = cdrConvert.TimeStampToCdr(&t) }); p {
		return v.Failf("timestamp-panic", "TimeStampToCdr(%s) panicked: %v\n%s", t, val, st)
	}
	want := bcdTimestamp(t)
	if !bytes.Equal(got.Value, want) {
		cls := "positive-hour"
		if c.Off < 0 {
			cls = "negative-zone"
		} else if c.Off%3600 != 0 {
			cls = "non-hour-zone"
		}
		return v.Failf("timestamp/"+cls, "TimeStampToCdr(%s) = %x, TS 32.298 BCD YYMMDDhhmmssShhmm is %x", t.Format(time.RFC3339), []byte(got.Value), want)
	}
	return v
}

var zonePool = []int{0, 3600, 19800, 20700, 45900, 50400, -12600, -28800, -43200, 7200, -3600, 34200, -34200, 60, -60, 3540}

func genTS(t *rapid.T) tsCase {
	c := tsCase{Unix: rapid.Int64Range(946684800, 4102444799).Draw(t, "unix")}
	if rapid.Bool().Draw(t, "poolZone") {
		c.Off = rapid.SampledFrom(zonePool).Draw(t, "zone")
	} else {
		c.Off = 60 * rapid.IntRange(-14*60, 14*60).Draw(t, "zoneMin")
	}
	return c
}

func TestC02Timestamp(t *testing.T) { h.Run(t, "C02", "timestamp", genTS, judgeTS) }

// --------------------------------------------------------- records and files

type flatCont struct {
	RG                      int64
	Tot, Up, Down, SSU, LSN int64
}

func flatten(rec *cdrType.CHFRecord) []flatCont {
	var out []flatCont
	if rec == nil || rec.ChargingFunctionRecord == nil {
		return out
	}
	for _, mu := range rec.ChargingFunctionRecord.ListOfMultipleUnitUsage {
		for _, c := range mu.UsedUnitContainers {
			f := flatCont{RG: mu.RatingGroup.Value, Tot: -1, Up: -1, Down: -1, SSU: -1, LSN: -1}
			if c.DataTotalVolume != nil {
				f.Tot = c.DataTotalVolume.Value
			}
			if c.DataVolumeUplink != nil {
				f.Up = c.DataVolumeUplink.Value
			}
			if c.DataVolumeDownlink != nil {
				f.Down = c.DataVolumeDownlink.Value
			}
			if c.ServiceSpecificUnits != nil {
				f.SSU = *c.ServiceSpecificUnits
			}
			if c.LocalSequenceNumber != nil {
				f.LSN = c.LocalSequenceNumber.Value
			}
			out = append(out, f)
		}
	}
	return out
}

// checkRecords is the C02 oracle over the subscriber's records.
func checkRecords(w *World, v *h.Verdict, step int, op Op, tz int) bool {
	for si, st := range w.subs {
		list, _, locked := verifapi.Records(st.supi)
		if locked {
			v.Failf("subscriber-locked", "step %d: subscriber %d still locked", step, si)
			return false
		}
		// group the records by charging id (unique per create) in ue.Records order
		byCharging := map[int64][]*cdrType.CHFRecord{}
		for _, r := range list {
			cr := r.ChargingFunctionRecord
			if cr == nil || cr.ChargingID == nil {
				v.Failf("record-without-charging-id", "step %d: a record of subscriber %d has no charging id", step, si)
				return false
			}
			byCharging[cr.ChargingID.Value] = append(byCharging[cr.ChargingID.Value], r)
		}
		known := map[int64]bool{}
		for _, se := range st.sess {
			known[int64(se.chargingID)] = true
			recs := byCharging[int64(se.chargingID)]
			if len(recs) == 0 {
				v.Failf("session-without-record", "step %d: session %s of subscriber %d has no record", step, se.ref, si)
				return false
			}
			var got []flatCont
			for _, r := range recs {
				got = append(got, flatten(r)...)
			}
			if len(recs) > 1 {
				v.NT("split")
			}
			// every reported container exactly once, unchanged, in report order
			for i := 0; i < len(got) || i < len(se.conts); i++ {
				if i >= len(got) {
					c := se.conts[i]
					v.Failf("container-missing", "step %d (%s): container lsn %d (rg %d) reported for session %s is not in its record(s) (%d of %d present)", step, op.K, c.LSN, c.RG, se.ref, len(got), len(se.conts))
					return false
				}
				if i >= len(se.conts) {
					v.Failf("container-foreign-or-duplicated", "step %d (%s): record(s) of session %s hold container lsn %d that was not reported for it at this position (%d reported, %d recorded)", step, op.K, se.ref, got[i].LSN, len(se.conts), len(got))
					return false
				}
				m := se.conts[i]
				g := got[i]
				if g.LSN != int64(m.LSN) {
					v.Failf("container-order-or-session", "step %d (%s): position %d of session %s holds container lsn %d, reported was lsn %d", step, op.K, i, se.ref, g.LSN, m.LSN)
					return false
				}
				if g.RG != int64(act(st.supi, m.RG)) || g.Tot != int64(m.Tot) || g.Up != int64(m.Up) || g.Down != int64(m.Down) || g.SSU != int64(m.SSU) {
					v.Failf("container-content", "step %d: container lsn %d recorded as %+v, reported %+v", step, m.LSN, g, m)
					return false
				}
			}
			for ri, r := range recs {
				cr := r.ChargingFunctionRecord
				if cr.SubscriberIdentifier == nil || string(cr.SubscriberIdentifier.SubscriptionIDData) != st.supi[5:] {
					v.Failf("record-subscriber", "step %d: record of session %s carries subscriber %+v, want %s", step, se.ref, cr.SubscriberIdentifier, st.supi[5:])
					return false
				}
				if cr.ChargingSessionIdentifier == nil || string(cr.ChargingSessionIdentifier.Value) != se.ref {
					v.Failf("record-session-ref", "step %d: record %d of session %s carries session identifier %v", step, ri, se.ref, cr.ChargingSessionIdentifier)
					return false
				}
				ci := cr.NFunctionConsumerInformation
				nf := se.createReq.NfConsumerIdentification
				name := ""
				if ci.NetworkFunctionName != nil {
					name = string(ci.NetworkFunctionName.Value)
				}
				v4, v6, fq := "", "", ""
				if ci.NetworkFunctionIPv4Address != nil && ci.NetworkFunctionIPv4Address.IPTextV4Address != nil {
					v4 = string(*ci.NetworkFunctionIPv4Address.IPTextV4Address)
				}
				if ci.NetworkFunctionIPv6Address != nil && ci.NetworkFunctionIPv6Address.IPTextV6Address != nil {
					v6 = string(*ci.NetworkFunctionIPv6Address.IPTextV6Address)
				}
				if ci.NetworkFunctionFQDN != nil && ci.NetworkFunctionFQDN.DomainName != nil {
					fq = string(*ci.NetworkFunctionFQDN.DomainName)
				}
				if name != nf.NFName || v4 != nf.NFIPv4Address || v6 != nf.NFIPv6Address || fq != nf.NFFqdn || ci.NetworkFunctionality.Value != cdrType.NetworkFunctionalityPresentSMF {
					v.Failf("record-consumer", "step %d: record of session %s carries consumer (%q,%q,%q,%q,functionality %d), created with (%q,%q,%q,%q,SMF)", step, se.ref, name, v4, v6, fq, ci.NetworkFunctionality.Value, nf.NFName, nf.NFIPv4Address, nf.NFIPv6Address, nf.NFFqdn)
					return false
				}
				if nf.NFPLMNID != nil {
					if ci.NetworkFunctionPLMNIdentifier == nil || !bytes.Equal(ci.NetworkFunctionPLMNIdentifier.Value, []byte{0x02, 0xf8, 0x39}) {
						v.Failf("record-plmn", "step %d: record of session %s carries PLMN %v, want 02f839 (MCC 208 MNC 93)", step, se.ref, ci.NetworkFunctionPLMNIdentifier)
						return false
					}
				}
				ts, off, err := parseBCD(cr.RecordOpeningTime.Value)
				if err != nil {
					v.Failf("opening-time-format"+zoneClass(tz), "step %d: record opening time %x of session %s is not TS 32.298 BCD: %v", step, []byte(cr.RecordOpeningTime.Value), se.ref, err)
					return false
				}
				if off != tz || ts.Before(se.t0.Add(-1500*time.Millisecond)) || ts.After(se.t1.Add(1500*time.Millisecond)) {
					v.Failf("opening-time-value"+zoneClass(tz), "step %d: record opening time %x decodes to %s (offset %d s); the session was created in [%s, %s] with zone offset %d s", step, []byte(cr.RecordOpeningTime.Value), ts.Format(time.RFC3339), off, se.t0.Format(time.RFC3339), se.t1.Format(time.RFC3339), tz)
					return false
				}
				if se.released && ri == len(recs)-1 && cr.CauseForRecClosing.Value != 0 {
					v.Failf("cause-after-release", "step %d: released session %s has cause for record closing %d, want 0 (normal release)", step, se.ref, cr.CauseForRecClosing.Value)
					return false
				}
			}
		}
		// one-time events: one record each, holding exactly the containers the event reported
		for _, ev := range st.events {
			known[int64(ev.chargingID)] = true
			recs := byCharging[int64(ev.chargingID)]
			if len(recs) != 1 {
				v.Failf("event-record-count", "step %d: the one-time event with charging id %d of subscriber %d has %d records, want 1", step, ev.chargingID, si, len(recs))
				return false
			}
			got := flatten(recs[0])
			if len(got) != len(ev.conts) {
				v.Failf("event-containers", "step %d: the record of one-time event %d holds %d containers, the event reported %d", step, ev.chargingID, len(got), len(ev.conts))
				return false
			}
			for i, m := range ev.conts {
				g := got[i]
				if g.LSN != int64(m.LSN) || g.RG != int64(act(st.supi, m.RG)) || g.Tot != int64(m.Tot) || g.Up != int64(m.Up) || g.Down != int64(m.Down) || g.SSU != int64(m.SSU) {
					v.Failf("event-containers", "step %d: container %d of one-time event %d recorded as %+v, reported %+v", step, i, ev.chargingID, g, m)
					return false
				}
			}
			v.Label("one-time-event")
		}
		for id := range byCharging {
			if !known[id] {
				v.Failf("record-of-unknown-session", "step %d: subscriber %d holds a record with charging id %d that no create of this history produced", step, si, id)
				return false
			}
		}
	}
	return true
}

func zoneClass(tz int) string {
	switch {
	case tz < 0:
		return "/negative-zone"
	case tz%3600 != 0:
		return "/non-hour-zone"
	}
	return ""
}

// checkFile is the C03 oracle over /tmp/<supi>.cdr.
func checkFile(st *subState, v *h.Verdict, step int, op Op, wantRecords int, reqBytes int) bool {
	d, err := os.ReadFile("/tmp/" + st.supi + ".cdr")
	if err != nil {
		v.Failf("file-missing", "step %d (%s): %v", step, op.K, err)
		return false
	}
	f, err := oracle.ReadSpec(d)
	if err != nil {
		v.Failf("file-malformed", "step %d (%s): CDR file of %d octets is not a TS 32.297 file: %v", step, op.K, len(d), err)
		return false
	}
	if int(f.FileLength) != len(d) {
		v.Failf("file-length", "step %d (%s): FileLength field %d, file has %d octets", step, op.K, f.FileLength, len(d))
		return false
	}
	if os.Getenv("VERIF_DEBUG") != "" {
		var ls []int
		for _, r := range f.Recs {
			ls = append(ls, len(r.Payload))
		}
		fmt.Fprintf(os.Stderr, "DEBUG step %d %s: file %d octets, consumed %d, NCdr %d, payload lengths %v, request usage %d octets, own fields %d\n", step, op.K, len(d), f.Consumed, f.NCdr, ls, reqBytes, ownFieldsSize(st.supi))
	}
	if f.Consumed != len(d) {
		// the record lengths do not tile the file: some record is longer than its 16-bit length field says
		n := 0
		for _, u := range op.UUs {
			n += len(u.Conts) + u.Jumbo
		}
		cls := op.K
		if reqBytes+ownFieldsSize(st.supi) > 65535 {
			// the usage of this one request alone does not fit a record next to the record's own fields (identifiers,
			// consumer and PDU session information: measured on the subscriber's records with their usage lists emptied)
			cls += "/single-request>64KiB"
		}
		v.Failf("record-overflow/"+cls, "step %d (%s carrying %d containers): header and %d records account for %d of %d octets (a record exceeds the 65535-octet limit of its length field)", step, op.K, n, f.NCdr, f.Consumed, len(d))
		return false
	}
	if wantRecords >= 0 && int(f.NCdr) != wantRecords {
		v.Failf("file-record-count", "step %d (%s): file holds %d records, the operation wrote %d", step, op.K, f.NCdr, wantRecords)
		return false
	}
	if len(f.Recs) >= 2 {
		v.NT("file>=2records")
	}
	for i, r := range f.Recs {
		if len(r.Payload) > 32768 {
			v.NT("payload>32KiB")
		}
		if _, err := oracle.WalkTLV(r.Payload); err != nil {
			v.Failf("payload-not-ber", "step %d (%s): payload of record %d (%d octets) is not one complete BER element: %v", step, op.K, i, len(r.Payload), err)
			return false
		}
		if len(r.Payload) < 3 || !bytes.Equal(r.Payload[:3], []byte{0xbf, 0x81, 0x48}) {
			v.Failf("payload-not-chf-record", "step %d: payload of record %d starts with %x, a CHF record is [200] constructed (bf8148)", step, i, r.Payload[:min(3, len(r.Payload))])
			return false
		}
	}
	return true
}

func judgeRecords(prop string) func(Hist) *h.Verdict {
	return func(hst Hist) *h.Verdict {
		v := &h.Verdict{}
		saved := time.Local
		defer func() { time.Local = saved }()
		time.Local = time.FixedZone("verif", hst.TZ)
		switch {
		case hst.TZ < 0:
			v.NT("negative-zone")
		case hst.TZ%3600 != 0:
			v.NT("non-hour-zone")
		}
		w := NewWorld(hst)
		for step, op := range hst.Ops {
			st := w.subs[op.S%len(w.subs)]
			nlive := len(st.live())
			lv := st.live()
			res := w.Exec(op)
			if op.K == "fill" && res.FillTarget != 0 {
				v.Label("last-report-built-to-the-octet")
				if res.FillTarget > recordLimit {
					v.Label("last-report-would-exceed-the-limit-by-1-to-12")
				}
				if res.FillSteps >= 140 {
					v.Label("filled-in>=140-updates")
				}
			}
			if res.Skipped {
				continue
			}
			if timedOut(res) {
				v.Skipped = true
				return v
			}
			if len(res.Panics) > 0 {
				return v.Failf("handler-panic/"+op.K+"/"+h.PanicFrame(res.Panics[0]), "step %d: handler panicked: %.2000s", step, res.Panics[0])
			}
			if res.Status >= 400 {
				return v.Failf(rejSig(res)+op.K, "step %d: well-formed %s answered %d %.200s", step, op.K, res.Status, res.Body)
			}
			for _, u := range op.UUs {
				if u.Jumbo >= 100 {
					v.NT("request>=100containers")
				}
			}
			if (op.K == "update" || op.K == "release") && nlive >= 2 && res.Sess != lv[len(lv)-1] {
				v.NT("update-to-non-latest-session")
			}
			if prop == "C02" {
				if !checkRecords(w, v, step, op, hst.TZ) {
					return v
				}
				partial := false
				if op.K == "update" && (op.Trig == "VOLUME_LIMIT" || op.Trig == "MAX_CHANGES" || op.Trig == "MGMT") {
					for _, u := range op.UUs {
						for _, c := range u.Conts {
							partial = partial || c.Q == "online"
						}
					}
				}
				if partial {
					v.NT("partial-closure")
					_, by, _ := verifapi.Records(st.supi)
					if r := by[res.Sess.ref]; r == nil || r.ChargingFunctionRecord.CauseForRecClosing.Value != 1 {
						return v.Failf("cause-after-partial", "step %d: after a partial closure (%s) the session's record has cause %v, want 1 (partial record)", step, op.Trig, r)
					}
				}
			} else {
				switch op.K {
				case "update", "fill":
					snap := snapshot(st.supi)
					if !checkFile(st, v, step, op, snap.NRecords, usageBytes(res)) {
						return v
					}
				case "release":
					if !checkFile(st, v, step, op, 1, usageBytes(res)) {
						return v
					}
				}
			}
		}
		return v
	}
}

func genRecHist(t *rapid.T) Hist {
	hst := genHist(t, genOpts{maxSubs: 2, maxSess: 3, minOps: 4, maxOps: h.Scale(18, 30), offline: true, jumbo: true, rgNums: true, events: true})
	hst.TZ = rapid.SampledFrom(zonePool).Draw(t, "tz")
	return hst
}

func TestC02Records(t *testing.T) { h.Run(t, "C02", "records", genRecHist, judgeRecords("C02")) }
func TestC03Files(t *testing.T)   { h.Run(t, "C03", "files", genRecHist, judgeRecords("C03")) }

// usageBytes: encoded size of the usage containers of one request (the same
// conversion and encoder the product applies; the encoder is judged by C04).
// ownFieldsSize is the largest encoded size of one of the subscriber's records without its usage list.
func ownFieldsSize(supi string) int {
	list, _, _ := verifapi.Records(supi)
	max := 600
	for _, r := range list {
		if r == nil || r.ChargingFunctionRecord == nil {
			continue
		}
		c := *r.ChargingFunctionRecord
		c.ListOfMultipleUnitUsage = nil
		cp := cdrType.CHFRecord{Present: r.Present, ChargingFunctionRecord: &c}
		b, err := asn.BerMarshalWithParams(&cp, "explicit,choice")
		if os.Getenv("VERIF_DEBUG") != "" {
			fmt.Fprintln(os.Stderr, "DEBUG own fields:", len(b), err)
		}
		if err == nil && len(b) > max {
			max = len(b)
		}
	}
	return max
}

func usageBytes(res *Result) int {
	if res == nil || res.ReqWire == nil || len(res.ReqWire.MultipleUnitUsage) == 0 {
		return 0
	}
	mu := cdrConvert.MultiUnitUsageToCdr(res.ReqWire.MultipleUnitUsage)
	b, err := asn.BerMarshalWithParams(&mu, "explicit,choice")
	if err != nil {
		return 0
	}
	return len(b)
}

// Long: the sessions of one subscriber through hundreds of requests (sequence numbers, container counts and
// record sizes grow far beyond those of the random histories; the record splits along the way).
func genRecLong(t *rapid.T) Hist {
	hst := genC01Long(t)
	for i := range hst.Ops {
		if hst.Ops[i].K == "update" && i%2 == 0 {
			hst.Ops[i].UUs[0].Conts = append(hst.Ops[i].UUs[0].Conts, Cont{Q: "offline", Tot: int32(i), Up: int32(i % 7), Down: 1, SSU: int32(i % 5), Pm: -1})
		}
	}
	hst.TZ = rapid.SampledFrom(zonePool).Draw(t, "tz")
	return hst
}

func longOf(prop string) func(Hist) *h.Verdict {
	j := judgeRecords(prop)
	return func(hst Hist) *h.Verdict {
		v := j(hst)
		v.Label("history>=300-requests")
		v.NonTrivial = true
		return v
	}
}

func TestC02Long(t *testing.T) { h.Run(t, "C02", "long", genRecLong, longOf("C02")) }
func TestC03Long(t *testing.T) { h.Run(t, "C03", "long", genRecLong, longOf("C03")) }

func genRecVolume(t *rapid.T) Hist {
	hst := genVolumeHist(t, false)
	hst.TZ = rapid.SampledFrom(zonePool).Draw(t, "tz")
	return hst
}
func TestC02Volume(t *testing.T) {
	h.Run(t, "C02", "volume", genRecVolume, volumeOf(judgeRecords("C02"), false))
}
func TestC03Volume(t *testing.T) {
	h.Run(t, "C03", "volume", genRecVolume, volumeOf(judgeRecords("C03"), false))
}

// Fill: sessions whose record is filled update by update right up to the record limit, the last report built to the
// octet (see fill.go).
var slackPool = []int{1, 2, 3, 4, 5, 6, 1, 3, 6, 0, -1, -6, 8, 12}

func genFill(t *rapid.T) Hist {
	var hst Hist
	hst.TZ = rapid.SampledFrom(zonePool).Draw(t, "tz")
	// (one subscriber per session: every update rewrites the subscriber's file with all its records)
	for i := 0; i < h.Scale(1, 2); i++ {
		hst.Subs = append(hst.Subs, Sub{Acct: [3]Acct{{1, 1 << 40}, {1, 1 << 40}, {1, 5000}}})
		hst.Ops = append(hst.Ops, Op{K: "create", S: i, Name: "smf", UUs: []UU{{RG: 1, Req: 10}}})
		hst.Ops = append(hst.Ops, Op{K: "fill", S: i, Sess: 0, RG: 2, Amt: int64(rapid.SampledFrom(slackPool).Draw(t, "slack"))})
		hst.Ops = append(hst.Ops, Op{K: "update", S: i, Sess: 0, UUs: []UU{{RG: 2, Conts: []Cont{{Q: "offline", Tot: 5, Up: 1, Down: 2, SSU: 3, Pm: -1}}}}})
		if i == 1 {
			// the record that continues the session is filled as well
			hst.Ops = append(hst.Ops, Op{K: "fill", S: i, Sess: 0, RG: 3, Amt: int64(rapid.SampledFrom(slackPool).Draw(t, "slack2"))})
		}
		hst.Ops = append(hst.Ops, Op{K: "release", S: i, Sess: 0})
	}
	return hst
}

func fillOf(j func(Hist) *h.Verdict) func(Hist) *h.Verdict {
	return func(hst Hist) *h.Verdict {
		v := j(hst)
		v.Label("record-filled-to-the-limit-in-small-steps")
		v.NonTrivial = true
		return v
	}
}

func TestC02Fill(t *testing.T) { h.Run(t, "C02", "fill", genFill, fillOf(judgeRecords("C02"))) }
func TestC03Fill(t *testing.T) { h.Run(t, "C03", "fill", genFill, fillOf(judgeRecords("C03"))) }

func TestC02Outage(t *testing.T) {
	h.Run(t, "C02", "outage", func(t *rapid.T) Hist { return genOutageHist(t, false, false) }, outageOf(judgeRecords("C02")))
}
