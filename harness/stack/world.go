// Engine stack: request histories executed against the whole CHF in-process
// (real gin router, processor, Diameter clients and servers, fake MongoDB).
package stack

import (
	"bytes"
	"encoding/json"
	"fmt"
	"net/http"
	"net/http/httptest"
	"net/url"
	"os"
	"strings"
	"sync"
	"time"

	"github.com/gin-gonic/gin"

	"github.com/free5gc/chf/verifapi"
	"github.com/free5gc/openapi/models"
	"verifharness/stackenv"
)

const prefix = "/nchf-convergedcharging/v3"

var (
	env    *stackenv.Env
	engine *gin.Engine
)

// ------------------------------------------------------------ history types

type Acct struct {
	Cost int   `json:"cost"`
	Bal  int64 `json:"bal"`
}

// Sub is a subscriber with one account per rating group 1..3.
type Sub struct {
	Acct   [3]Acct `json:"acct"`
	Suffix string  `json:"suffix,omitempty"` // digits appended to a case-unique SUPI base (C10: one SUPI a prefix of another)
}

// Cont is one used-unit container.  Pm >= 0 makes the total volume relative
// to the last grant of (session, rating group): the compliant consumer.
type Cont struct {
	Q    string `json:"q"` // online | offline | suspended
	Tot  int32  `json:"tot"`
	Up   int32  `json:"up,omitempty"`
	Down int32  `json:"down,omitempty"`
	SSU  int32  `json:"ssu,omitempty"`
	Pm   int    `json:"pm"` // -1: Tot is absolute
}

type UU struct {
	RG    int32  `json:"rg"`
	Req   int32  `json:"req"`
	Conts []Cont `json:"conts,omitempty"`
	Jumbo int    `json:"jumbo,omitempty"` // this many extra offline containers (size classes of C02/C03)
	QOnly int    `json:"qOnly,omitempty"` // this many further unit-usage entries that only ask for quota (no used-unit container)
}

type Op struct {
	K    string `json:"k"` // create | update | release | recharge | bad
	S    int    `json:"s"` // subscriber index
	Sess int    `json:"sess,omitempty"`
	UUs  []UU   `json:"uus,omitempty"`
	Trig string `json:"trig,omitempty"` // "", FINAL, VOLUME_LIMIT, MAX_CHANGES, MGMT, QUOTA_THRESHOLD
	RG   int32  `json:"rg,omitempty"`   // recharge
	Amt  int64  `json:"amt,omitempty"`
	Bad  string `json:"bad,omitempty"` // unknown-sub | unknown-ref | stale-ref | foreign-ref
	ISN  int32  `json:"isn,omitempty"`
	Name string `json:"name,omitempty"` // consumer name (create)
	Plmn bool   `json:"plmn,omitempty"`
	Addr bool   `json:"addr,omitempty"`
	Lead int    `json:"lead,omitempty"` // respell: leading zeros in front of the rating group's decimal digits
	Pdu  int    `json:"pdu,omitempty"`  // create: 1 carries pDUSessionChargingInformation with the request's charging id, 2 with another one
	NSt  int    `json:"nst,omitempty"`  // create: the consumer answers notifications with this status (0: 204)
	N    int    `json:"n,omitempty"`    // bystanders: how many
}

type Hist struct {
	Subs []Sub  `json:"subs"`
	Ops  []Op   `json:"ops"`
	TZ   int    `json:"tz,omitempty"`   // host zone offset in seconds (C02)
	Seq  uint64 `json:"seq,omitempty"`  // position of the global record counter at the start (C10)
	Base bool   `json:"base,omitempty"` // all subscribers share one case-unique SUPI base, even with an empty suffix
	// RGNums: the numbers the three rating groups carry on the wire (requests, accounts, recharges, records); the
	// harness itself counts rating groups 1..3 throughout.  Absent = 1, 2, 3.
	RGNums []int32 `json:"rgNums,omitempty"`
}

// rating group numbers per subscriber (SUPI -> the numbers of rating groups 1..3); unregistered SUPIs use 1, 2, 3
var rgNums sync.Map

// act is the number rating group rg (1..3) of the subscriber carries on the wire.
func act(supi string, rg int32) int32 {
	if v, ok := rgNums.Load(supi); ok && rg >= 1 && rg <= 3 {
		return v.([4]int32)[rg]
	}
	return rg
}

// logi maps a number seen on the wire back to the harness's rating group 1..3 (other numbers: unchanged).
func logi(supi string, n int32) int32 {
	if v, ok := rgNums.Load(supi); ok {
		a := v.([4]int32)
		for rg := int32(1); rg <= 3; rg++ {
			if a[rg] == n {
				return rg
			}
		}
		if n >= 1 && n <= 3 {
			return -n // a number that is none of this subscriber's: must not be taken for one of its groups
		}
	}
	return n
}

// logicalReq is the request that was sent, with rating groups as the harness counts them.
func logicalReq(supi string, r *models.ChfConvergedChargingChargingDataRequest) *models.ChfConvergedChargingChargingDataRequest {
	c := *r
	c.MultipleUnitUsage = append([]models.ChfConvergedChargingMultipleUnitUsage{}, r.MultipleUnitUsage...)
	for i := range c.MultipleUnitUsage {
		c.MultipleUnitUsage[i].RatingGroup = logi(supi, c.MultipleUnitUsage[i].RatingGroup)
	}
	return &c
}

func acctSet(supi string, rg int32, bal int64, cost string) {
	env.SetAccount(supi, act(supi, rg), bal, cost)
}
func acctQuota(supi string, rg int32) (int64, error) { return env.Quota(supi, act(supi, rg)) }
func acctAdd(supi string, rg int32, amt int64) error { return env.AddQuota(supi, act(supi, rg), amt) }

// snapshot is verifapi.Snapshot with the per-rating-group maps keyed by the harness's rating groups 1..3.
func snapshot(supi string) verifapi.Snap {
	s := verifapi.Snapshot(supi)
	if _, ok := rgNums.Load(supi); !ok {
		return s
	}
	r, u, t, q := map[int32]int64{}, map[int32]uint32{}, map[int32]int{}, map[int32]uint32{}
	for k, v := range s.Reserved {
		r[logi(supi, k)] = v
	}
	for k, v := range s.UnitCost {
		u[logi(supi, k)] = v
	}
	for k, v := range s.RatingType {
		t[logi(supi, k)] = v
	}
	for k, v := range s.ReqNum {
		q[logi(supi, k)] = v
	}
	s.Reserved, s.UnitCost, s.RatingType, s.ReqNum = r, u, t, q
	return s
}

// ------------------------------------------------------------- world state

type contRec struct {
	RG                 int32
	Tot, Up, Down, SSU int32
	LSN                int32
}

type sess struct {
	ref        string
	chargingID int32
	live       bool
	name       string
	createReq  models.ChfConvergedChargingChargingDataRequest
	t0, t1     time.Time
	lastGrant  map[int32]int32
	conts      []contRec // every container reported for this session, in order
	released   bool
	partials   int
}

type subState struct {
	supi     string
	sess     []*sess
	credited [4]int64
	usage    [4]int64 // online volume reported in completed update/release requests
	cost     [4]int64
	events   []*sess // one-time events (a record each, no session)
	notify   string  // path of the notification URI registered by the latest successful create
	creates  int
	// operation blockfile: the subscriber's CDR file cannot be written at the moment
	fileBlocked bool
}

type World struct {
	subs    []*subState
	lsn     int32
	chgID   int32
	isn     int32
	foreign *subState // a subscriber with a live session used for foreign-ref probes
	// operation peers: which collaborators are unreachable at the moment
	ratingDown, abmfDown bool
}

type Result struct {
	Op       Op
	Skipped  bool
	Status   int
	Body     []byte
	Location string
	Resp     *models.ChfConvergedChargingChargingDataResponse
	ReqWire  *models.ChfConvergedChargingChargingDataRequest // the request as sent (Req carries the harness's rating group numbers)
	Sess     *sess
	Sub      *subState
	Req      *models.ChfConvergedChargingChargingDataRequest
	Path     string
	Elapsed  time.Duration
	Panics   []string
	Logs     []string
	// operation fill: updates sent, and the size aimed at
	FillSteps, FillTarget int
}

func (s *subState) live() []*sess {
	var out []*sess
	for _, x := range s.sess {
		if x.live {
			out = append(out, x)
		}
	}
	return out
}

var chargingIDSeq int32 = 1000

func NewWorld(hst Hist) *World {
	w := &World{}
	verifapi.SetPeerPorts(env.RfPort, env.AbmfPort) // (whatever an earlier history left behind)
	base := ""
	for _, sp := range hst.Subs {
		st := &subState{}
		if sp.Suffix != "" || base != "" || hst.Base {
			if base == "" {
				base = env.NewSupi()
			}
			st.supi = base + sp.Suffix
			env.Track(st.supi)
		} else {
			st.supi = env.NewSupi()
		}
		if len(hst.RGNums) == 3 {
			rgNums.Store(st.supi, [4]int32{0, hst.RGNums[0], hst.RGNums[1], hst.RGNums[2]})
		}
		for i, a := range sp.Acct {
			rg := int32(i + 1)
			acctSet(st.supi, rg, a.Bal, fmt.Sprint(a.Cost))
			st.credited[rg] = a.Bal
			st.cost[rg] = int64(a.Cost)
		}
		w.subs = append(w.subs, st)
	}
	return w
}

func doHTTP(method, path string, body []byte, hdr map[string]string) (int, []byte, http.Header) {
	var rd *bytes.Reader
	if body == nil {
		rd = bytes.NewReader(nil)
	} else {
		rd = bytes.NewReader(body)
	}
	req := httptest.NewRequest(method, path, rd)
	req.Header.Set("Content-Type", "application/json")
	for k, v := range hdr {
		if v == "" {
			req.Header.Del(k)
		} else {
			req.Header.Set(k, v)
		}
	}
	rec := httptest.NewRecorder()
	done := make(chan struct{})
	go func() {
		defer close(done)
		engine.ServeHTTP(rec, req)
	}()
	select {
	case <-done:
	case <-time.After(hangAfter):
		// far beyond anything a request can take (3 rating groups x 4 exchanges x 5 s): the request is blocked
		return statusHung, []byte(fmt.Sprintf("HARNESS: %s %s has not returned after %v - the request is blocked", method, path, hangAfter)), http.Header{}
	}
	return rec.Code, rec.Body.Bytes(), rec.Header()
}

const (
	hangAfter  = 150 * time.Second
	statusHung = 598
)

// rejSig names a well-formed request that was not served: rejected, or never answered at all.
func rejSig(res *Result) string {
	if res.Status == statusHung {
		return "request-never-returns/"
	}
	return "valid-request-rejected/"
}

func trig(name string) []models.ChfConvergedChargingTrigger {
	switch name {
	case "FINAL":
		return []models.ChfConvergedChargingTrigger{{TriggerType: models.ChfConvergedChargingTriggerType_FINAL, TriggerCategory: models.TriggerCategory_IMMEDIATE_REPORT}}
	case "VOLUME_LIMIT":
		return []models.ChfConvergedChargingTrigger{{TriggerType: models.ChfConvergedChargingTriggerType_VOLUME_LIMIT, TriggerCategory: models.TriggerCategory_IMMEDIATE_REPORT}}
	case "MAX_CHANGES":
		return []models.ChfConvergedChargingTrigger{{TriggerType: models.ChfConvergedChargingTriggerType_MAX_NUMBER_OF_CHANGES_IN_CHARGING_CONDITIONS, TriggerCategory: models.TriggerCategory_IMMEDIATE_REPORT}}
	case "MGMT":
		return []models.ChfConvergedChargingTrigger{{TriggerType: models.ChfConvergedChargingTriggerType_MANAGEMENT_INTERVENTION, TriggerCategory: models.TriggerCategory_IMMEDIATE_REPORT}}
	case "QUOTA_THRESHOLD":
		return []models.ChfConvergedChargingTrigger{{TriggerType: models.ChfConvergedChargingTriggerType_QUOTA_THRESHOLD, TriggerCategory: models.TriggerCategory_IMMEDIATE_REPORT}}
	}
	return nil
}

func qmi(q string) models.QuotaManagementIndicator {
	switch q {
	case "online":
		return models.QuotaManagementIndicator_ONLINE_CHARGING
	case "offline":
		return models.QuotaManagementIndicator_OFFLINE_CHARGING
	case "suspended":
		return models.QuotaManagementIndicator_QUOTA_MANAGEMENT_SUSPENDED
	}
	return ""
}

// buildUnits converts the abstract unit usages into the request model and
// returns the containers as the model will remember them.
func (w *World) buildUnits(op Op, se *sess, withConts bool) ([]models.ChfConvergedChargingMultipleUnitUsage, []contRec, map[int32]int64) {
	var out []models.ChfConvergedChargingMultipleUnitUsage
	var recs []contRec
	online := map[int32]int64{}
	supi := ""
	if len(w.subs) > 0 {
		supi = w.subs[op.S%len(w.subs)].supi
	}
	for _, u := range op.UUs {
		mu := models.ChfConvergedChargingMultipleUnitUsage{RatingGroup: act(supi, u.RG), RequestedUnit: &models.RequestedUnit{TotalVolume: u.Req}, UPFID: "upf-" + fmt.Sprint(u.RG)}
		if withConts {
			for _, c := range u.Conts {
				tot := c.Tot
				if c.Pm >= 0 {
					g := int64(0)
					if se != nil {
						g = int64(se.lastGrant[u.RG])
					}
					tot = int32(g * int64(c.Pm) / 1000)
				}
				w.lsn++
				mc := models.ChfConvergedChargingUsedUnitContainer{QuotaManagementIndicator: qmi(c.Q), TotalVolume: tot, UplinkVolume: c.Up, DownlinkVolume: c.Down, ServiceSpecificUnits: c.SSU, LocalSequenceNumber: w.lsn}
				mu.UsedUnitContainer = append(mu.UsedUnitContainer, mc)
				recs = append(recs, contRec{RG: u.RG, Tot: tot, Up: c.Up, Down: c.Down, SSU: c.SSU, LSN: w.lsn})
				if c.Q == "online" {
					online[u.RG] += int64(tot)
				}
			}
			for i := 0; i < u.Jumbo; i++ {
				w.lsn++
				mc := models.ChfConvergedChargingUsedUnitContainer{QuotaManagementIndicator: models.QuotaManagementIndicator_OFFLINE_CHARGING, TotalVolume: int32(i), UplinkVolume: 1, DownlinkVolume: 2, ServiceSpecificUnits: 3, LocalSequenceNumber: w.lsn}
				mu.UsedUnitContainer = append(mu.UsedUnitContainer, mc)
				recs = append(recs, contRec{RG: u.RG, Tot: int32(i), Up: 1, Down: 2, SSU: 3, LSN: w.lsn})
			}
		}
		out = append(out, mu)
		if withConts {
			for i := 0; i < u.QOnly; i++ {
				out = append(out, models.ChfConvergedChargingMultipleUnitUsage{RatingGroup: act(supi, u.RG), RequestedUnit: &models.RequestedUnit{TotalVolume: 1}, UPFID: "upf-q"})
			}
		}
	}
	return out, recs, online
}

func refOf(location string) string {
	i := strings.LastIndex(location, "/")
	if i < 0 {
		return location
	}
	return location[i+1:]
}

// Exec executes one operation and updates the harness-side bookkeeping that
// does not depend on any property (sessions, grants, reported containers).
func (w *World) Exec(op Op) *Result {
	res := &Result{Op: op}
	if op.S < 0 || len(w.subs) == 0 {
		res.Skipped = true
		return res
	}
	st := w.subs[op.S%len(w.subs)]
	res.Sub = st
	now := time.Now()
	w.isn++
	isn := op.ISN
	if isn == 0 {
		isn = w.isn
	}
	_ = verifapi.LoggedErrors()
	t0 := time.Now()
	switch op.K {
	case "create":
		chargingIDSeq++
		se := &sess{chargingID: chargingIDSeq, name: op.Name, lastGrant: map[int32]int32{}}
		nf := &models.ChfConvergedChargingNfIdentification{NFName: op.Name, NodeFunctionality: "SMF"}
		if op.Addr {
			nf.NFIPv4Address, nf.NFFqdn, nf.NFIPv6Address = "10.0.0.7", "smf.example.org", "2001:db8::7"
		}
		if op.Plmn {
			nf.NFPLMNID = &models.PlmnId{Mcc: "208", Mnc: "93"}
		}
		units, _, _ := w.buildUnits(op, nil, false)
		st.creates++
		npath := fmt.Sprintf("/notify/%s/%d", st.supi, st.creates) // every consumer (session) registers its own URI
		if op.NSt != 0 {
			npath = fmt.Sprintf("/notify-%03d/%s/%d", op.NSt, st.supi, st.creates)
		}
		req := models.ChfConvergedChargingChargingDataRequest{SubscriberIdentifier: st.supi, ChargingId: se.chargingID, NfConsumerIdentification: nf,
			InvocationTimeStamp: &now, InvocationSequenceNumber: isn, NotifyUri: env.Sink.URL + npath, MultipleUnitUsage: units}
		if op.Pdu != 0 {
			// the PDU session's own charging id usually repeats the request's; it need not
			pid := se.chargingID
			if op.Pdu == 2 {
				pid = se.chargingID + 500000
			}
			req.PDUSessionChargingInformation = &models.ChfConvergedChargingPduSessionChargingInformation{ChargingId: pid,
				UserInformation: &models.ChfConvergedChargingUserInformation{ServedGPSI: "msisdn-1"},
				PduSessionInformation: &models.ChfConvergedChargingPduSessionInformation{PduSessionID: 1, DnnId: "internet",
					NetworkSlicingInfo: &models.NetworkSlicingInfo{SNSSAI: &models.Snssai{Sst: 1, Sd: "010203"}}}}
		}
		body, _ := json.Marshal(req)
		se.t0 = time.Now()
		code, rb, hd := doHTTP("POST", prefix+"/chargingdata", body, nil)
		se.t1 = time.Now()
		res.Status, res.Body, res.Location, res.Req, res.Path = code, rb, hd.Get("Location"), logicalReq(st.supi, &req), prefix+"/chargingdata"
		res.ReqWire = &req
		if code == http.StatusCreated {
			st.notify = npath
			se.ref, se.live, se.createReq = refOf(res.Location), true, req
			st.sess = append(st.sess, se)
			res.Sess = se
		}
	case "event":
		// a one-time event (immediate event charging): a create that opens no session and leaves one closed record
		chargingIDSeq++
		se := &sess{chargingID: chargingIDSeq, name: "smf", lastGrant: map[int32]int32{}}
		units, recs, _ := w.buildUnits(op, nil, true)
		req := models.ChfConvergedChargingChargingDataRequest{SubscriberIdentifier: st.supi, ChargingId: se.chargingID,
			NfConsumerIdentification: &models.ChfConvergedChargingNfIdentification{NFName: "smf", NodeFunctionality: "SMF"},
			InvocationTimeStamp:      &now, InvocationSequenceNumber: isn, MultipleUnitUsage: units, OneTimeEvent: true, OneTimeEventType: models.OneTimeEventType_IEC}
		body, _ := json.Marshal(req)
		code, rb, hd := doHTTP("POST", prefix+"/chargingdata", body, nil)
		res.Status, res.Body, res.Location, res.Req, res.Path = code, rb, hd.Get("Location"), logicalReq(st.supi, &req), prefix+"/chargingdata"
		res.ReqWire = &req
		if code == http.StatusCreated {
			se.conts = recs
			st.events = append(st.events, se)
		}
	case "update", "release":
		lv := st.live()
		if len(lv) == 0 {
			res.Skipped = true
			return res
		}
		se := lv[op.Sess%len(lv)]
		res.Sess = se
		units, recs, online := w.buildUnits(op, se, true)
		req := models.ChfConvergedChargingChargingDataRequest{SubscriberIdentifier: st.supi, ChargingId: se.chargingID,
			NfConsumerIdentification: &models.ChfConvergedChargingNfIdentification{NFName: se.name, NodeFunctionality: "SMF"},
			InvocationTimeStamp:      &now, InvocationSequenceNumber: isn, NotifyUri: env.Sink.URL + "/notify/" + st.supi,
			MultipleUnitUsage: units, Triggers: trig(op.Trig)}
		body, _ := json.Marshal(req)
		path := prefix + "/chargingdata/" + url.PathEscape(se.ref) + "/" + op.K // the reference is one path segment
		code, rb, hd := doHTTP("POST", path, body, nil)
		res.Status, res.Body, res.Location, res.Req, res.Path = code, rb, hd.Get("Location"), logicalReq(st.supi, &req), path
		res.ReqWire = &req
		if code >= 200 && code < 300 {
			se.conts = append(se.conts, recs...)
			for rg, vol := range online {
				if rg >= 1 && rg <= 3 {
					st.usage[rg] += vol
				}
				// what is left of the last grant until a new one arrives
				g := int64(se.lastGrant[rg]) - vol
				if g < 0 {
					g = 0
				}
				se.lastGrant[rg] = int32(g)
			}
			if op.K == "release" {
				se.live, se.released = false, true
			}
		}
	case "peers":
		// the rating function and/or the account balance function become unreachable (connection refused), or
		// reachable again
		rf, ab := env.RfPort, env.AbmfPort
		switch op.Name {
		case "rating-down":
			rf = 1
		case "abmf-down":
			ab = 1
		case "both-down":
			rf, ab = 1, 1
		}
		verifapi.SetPeerPorts(rf, ab)
		w.ratingDown, w.abmfDown = rf == 1, ab == 1
		res.Status = http.StatusNoContent
	case "blockfile":
		// the subscriber's CDR file cannot be written: a directory is in its place
		f := "/tmp/" + st.supi + ".cdr"
		_ = os.Remove(f)
		_ = os.Mkdir(f, 0o755)
		st.fileBlocked = true
		res.Status = http.StatusNoContent
	case "unblockfile":
		_ = os.Remove("/tmp/" + st.supi + ".cdr")
		st.fileBlocked = false
		res.Status = http.StatusNoContent
	case "fill":
		lv := st.live()
		if len(lv) == 0 {
			res.Skipped = true
			return res
		}
		return w.fill(st, lv[op.Sess%len(lv)], op)
	case "aged":
		// the subscriber's rating group has been in use for a long time: its credit-control request counter stands at
		// op.Amt (reachable only by that many requests); it never goes back
		res.Status = http.StatusNoContent
		if cur := snapshot(st.supi); !cur.Exists || uint64(cur.ReqNum[op.RG]) >= uint64(op.Amt) || !verifapi.SetAcctRequestNum(st.supi, act(st.supi, op.RG), uint32(op.Amt)) {
			res.Skipped = true
			return res
		}
	case "bystanders":
		// N other subscribers each open a session (no quota asked, nothing reported) and every other one closes
		// it again (with sess = 1 all of them stay): the CHF's process-wide population (subscriber contexts, sessions, records, the record counter)
		// grows while the subscribers of the history are idle
		res.Status = http.StatusCreated
		nf := &models.ChfConvergedChargingNfIdentification{NFName: "smf", NodeFunctionality: "SMF"}
		for i := 0; i < op.N; i++ {
			chargingIDSeq++
			supi := env.NewSupi()
			req := models.ChfConvergedChargingChargingDataRequest{SubscriberIdentifier: supi, ChargingId: chargingIDSeq, NfConsumerIdentification: nf,
				InvocationTimeStamp: &now, InvocationSequenceNumber: 1}
			body, _ := json.Marshal(req)
			code, rb, hd := doHTTP("POST", prefix+"/chargingdata", body, nil)
			if code != http.StatusCreated {
				res.Status, res.Body, res.Path = code, []byte(fmt.Sprintf("bystander %d of %d (create for %s): %.200s", i+1, op.N, supi, rb)), prefix+"/chargingdata"
				break
			}
			if i%2 == 0 && op.Sess == 0 {
				path := prefix + "/chargingdata/" + url.PathEscape(refOf(hd.Get("Location"))) + "/release"
				req.InvocationSequenceNumber = 2
				body, _ = json.Marshal(req)
				if code, rb, _ = doHTTP("POST", path, body, nil); code != http.StatusNoContent {
					res.Status, res.Body, res.Path = code, []byte(fmt.Sprintf("bystander %d of %d (release of %s): %.200s", i+1, op.N, path, rb)), path
					if code < 400 {
						res.Status = 599
					}
					break
				}
			}
		}
	case "recharge":
		rg := op.RG
		if rg < 1 || rg > 3 {
			rg = 1
		}
		if err := acctAdd(st.supi, rg, op.Amt); err == nil {
			st.credited[rg] += op.Amt
		}
		path := fmt.Sprintf("%s/recharging/%s_%d", prefix, st.supi, act(st.supi, rg))
		code, rb, _ := doHTTP("PUT", path, nil, nil)
		res.Status, res.Body, res.Path = code, rb, path
	default:
		res.Skipped = true
		return res
	}
	res.Elapsed = time.Since(t0)
	if len(res.Body) > 0 && res.Status >= 200 && res.Status < 300 {
		var rsp models.ChfConvergedChargingChargingDataResponse
		if json.Unmarshal(res.Body, &rsp) == nil {
			// rating groups as the harness counts them
			for i := range rsp.MultipleUnitInformation {
				rsp.MultipleUnitInformation[i].RatingGroup = logi(st.supi, rsp.MultipleUnitInformation[i].RatingGroup)
			}
			res.Resp = &rsp
			if res.Sess != nil {
				for _, mi := range rsp.MultipleUnitInformation {
					if mi.GrantedUnit != nil {
						res.Sess.lastGrant[mi.RatingGroup] = mi.GrantedUnit.TotalVolume
					}
				}
			}
		}
	}
	for _, m := range verifapi.LoggedErrors() {
		if len(res.Logs) < 12 {
			res.Logs = append(res.Logs, m)
		}
		if strings.Contains(m, "panic") {
			res.Panics = append(res.Panics, m)
		}
	}
	return res
}

// fui reports whether a response entry carries a real final-unit indication.
func fui(mi models.MultipleUnitInformation) bool {
	return mi.FinalUnitIndication != nil && mi.FinalUnitIndication.FinalUnitAction != ""
}
