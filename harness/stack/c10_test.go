package stack

import (
	"strings"
	"testing"

	"pgregory.net/rapid"

	"github.com/free5gc/chf/verifapi"
	"verifharness/h"
)

func judgeC10(hst Hist) *h.Verdict {
	v := &h.Verdict{}
	verifapi.SetLocalRecordSeq(hst.Seq)
	w := NewWorld(hst)
	var burner *World
	for step, op := range hst.Ops {
		if op.K == "jump" {
			// very many records later: the global counter stands at op.Amt (reachable only by that many creates)
			// the counter only ever grows: a jump to a value it has already passed is not a reachable state
			if uint64(op.Amt) > verifapi.LocalRecordSeq() {
				verifapi.SetLocalRecordSeq(uint64(op.Amt))
				v.Label("counter-jump")
			}
			continue
		}
		if op.K == "burn" {
			// other consumers create and release sessions in between: the global counter advances
			if burner == nil {
				burner = NewWorld(Hist{Subs: []Sub{{Acct: [3]Acct{{1, 1000}, {1, 1000}, {1, 1000}}}}})
			}
			for i := int64(0); i < op.Amt; i++ {
				r1 := burner.Exec(Op{K: "create", S: 0, Name: "b", UUs: []UU{{RG: 1, Req: 1}}})
				r2 := burner.Exec(Op{K: "release", S: 0, UUs: []UU{{RG: 1, Req: 0}}, Trig: "FINAL"})
				if r1.Status != 201 || r2.Status != 204 {
					return v.Failf("valid-request-rejected/burn", "step %d: filler create/release answered %d/%d", step, r1.Status, r2.Status)
				}
			}
			v.Label("counter-advanced-by-others")
			continue
		}
		res := w.Exec(op)
		if res.Skipped {
			continue
		}
		if op.K == "create" && len(op.Name) > 200 {
			v.Label("consumer-name>200")
		}
		if op.K == "create" && strings.Contains(op.Name, "-") {
			v.Label("consumer-name-with-separator")
		}
		if timedOut(res) {
			v.Skipped = true
			return v
		}
		if len(res.Panics) > 0 {
			return v.Failf("handler-panic/"+op.K+"/"+h.PanicFrame(res.Panics[0]), "step %d: handler panicked: %.2000s", step, res.Panics[0])
		}
		if res.Status >= 400 {
			return v.Failf(rejSig(res)+op.K, "step %d: well-formed %s answered %d %.200s", step, op.K, res.Status, res.Body)
		}
		if op.K == "update" && res.Sub != nil && snapshot(res.Sub.supi).NRecords > len(res.Sub.sess) {
			v.Label("a-record-was-split")
		}
		// (1) references of all live sessions pairwise different, across subscribers
		type owner struct {
			sub  int
			name string
			supi string
		}
		seen := map[string]owner{}
		for si, st := range w.subs {
			for _, se := range st.live() {
				if o, dup := seen[se.ref]; dup {
					cls := "same-subscriber"
					if o.sub != si {
						cls = "across-subscribers"
					}
					return v.Failf("duplicate-reference/"+cls, "step %d: create returned reference %q for (SUPI %s, consumer %q) although the live session of (SUPI %s, consumer %q) already has it", step, se.ref, st.supi, se.name, o.supi, o.name)
				}
				seen[se.ref] = owner{si, se.name, st.supi}
			}
		}
		// prefix-related (SUPI, name) pairs that are both live
		var live []owner
		for si, st := range w.subs {
			for _, se := range st.live() {
				live = append(live, owner{si, se.name, st.supi})
			}
		}
		for i := range live {
			if len(live) > 60 {
				break // (classification only; quadratic)
			}
			for j := range live {
				if i != j && (live[i].supi != live[j].supi || live[i].name != live[j].name) {
					a, b := live[i].supi+live[i].name, live[j].supi+live[j].name
					if len(a) <= len(b) && b[:len(a)] == a {
						v.NT("prefix-related-live-sessions")
					}
				}
			}
		}
		// (2) the reference designates the session opened by that create
		if !checkRecords(w, v, step, op, 0) {
			return v
		}
	}
	return v
}

// genWrap: sessions opened at small counter values stay open while the counter passes a width boundary.
func genWrap(t *rapid.T) Hist {
	hst := Hist{Base: true, Seq: uint64(rapid.IntRange(0, 2).Draw(t, "seq0"))}
	hst.Subs = []Sub{{Acct: [3]Acct{{1, 100000}, {1, 100000}, {1, 100000}}, Suffix: "1"}}
	name := rapid.SampledFrom([]string{"s", "", "s1"}).Draw(t, "name")
	mk := func() Op { return Op{K: "create", S: 0, Name: name, UUs: []UU{{RG: 1, Req: 10}}} }
	hst.Ops = append(hst.Ops, mk(), mk())
	w := rapid.SampledFrom([]uint{16, 31, 32, 63}).Draw(t, "width")
	hst.Ops = append(hst.Ops, Op{K: "jump", Amt: int64(uint64(1)<<w - uint64(rapid.IntRange(1, 2).Draw(t, "before")))})
	for i := 0; i < 4; i++ {
		hst.Ops = append(hst.Ops, mk())
	}
	return hst
}

// genSplit: several sessions of one consumer stay open while the record of one of them is split, then the same
// consumer opens another session (whatever numbers records carry, the new reference must be a new one).
func genSplit(t *rapid.T) Hist {
	hst := Hist{Seq: uint64(rapid.IntRange(0, 12).Draw(t, "seq0"))}
	hst.Subs = []Sub{{Acct: [3]Acct{{1, 100000}, {1, 100000}, {1, 100000}}}}
	name := rapid.SampledFrom([]string{"smf", "", "s1", "1"}).Draw(t, "name")
	mk := func() Op { return Op{K: "create", S: 0, Name: name, UUs: []UU{{RG: 1, Req: 10}}} }
	n := rapid.IntRange(2, 4).Draw(t, "open")
	for i := 0; i < n; i++ {
		hst.Ops = append(hst.Ops, mk())
	}
	which := rapid.IntRange(0, n-1).Draw(t, "splitSession")
	for i := 0; i < rapid.IntRange(2, 3).Draw(t, "bulkUpdates"); i++ {
		hst.Ops = append(hst.Ops, Op{K: "update", S: 0, Sess: which, UUs: []UU{{RG: 1, Req: 10, Jumbo: 2000, Conts: []Cont{{Q: "offline", Tot: 1, Pm: -1}}}}})
	}
	if rapid.Bool().Draw(t, "releaseOne") {
		hst.Ops = append(hst.Ops, Op{K: "release", S: 0, Sess: rapid.IntRange(0, n-1).Draw(t, "released"), UUs: []UU{{RG: 1, Req: 0}}, Trig: "FINAL"})
	}
	for i := 0; i < rapid.IntRange(1, 3).Draw(t, "creates"); i++ {
		hst.Ops = append(hst.Ops, mk())
	}
	return hst
}

func genC10(t *rapid.T) Hist {
	if rapid.IntRange(0, 7).Draw(t, "wrap") == 0 {
		return genWrap(t)
	}
	if rapid.IntRange(0, 7).Draw(t, "split") == 0 {
		return genSplit(t)
	}
	var hst Hist
	hst.Seq = rapid.SampledFrom([]uint64{0, 8, 9, 10, 98, 99, 109, 110, 1, 11, 12}).Draw(t, "seq")
	suffixes := rapid.Permutation([]string{"1", "11", "12", "111", "2"}).Draw(t, "suffixes")
	ns := rapid.IntRange(1, 3).Draw(t, "nSubs")
	for i := 0; i < ns; i++ {
		hst.Subs = append(hst.Subs, Sub{Acct: [3]Acct{{1, 100000}, {2, 100000}, {3, 100000}}, Suffix: suffixes[i]})
	}
	names := []string{"", "1", "11", "12", "s", "s1", "s11", "2", "-", "s-1", "1-", "smf%41", "100%25", "a b", strings.Repeat("n", 230), strings.Repeat("n", 250), strings.Repeat("n", 1000)}
	n := rapid.IntRange(3, h.Scale(14, 24)).Draw(t, "nOps")
	liveCount := make([]int, ns)
	for i := 0; i < n; i++ {
		s := rapid.IntRange(0, ns-1).Draw(t, "sub")
		k := rapid.SampledFrom([]string{"create", "create", "create", "update", "update", "release", "burn", "jump"}).Draw(t, "kind")
		if liveCount[s] == 0 && k != "burn" && k != "jump" {
			k = "create"
		}
		if k == "create" && liveCount[s] >= 4 {
			k = "update"
		}
		op := Op{K: k, S: s}
		switch k {
		case "jump":
			op.Amt = rapid.SampledFrom([]int64{1<<32 - 2, 1<<32 - 1, 1 << 32, 1<<31 - 1, 1 << 31, 1<<16 - 1, 1 << 16, 1<<63 - 2}).Draw(t, "jump")
		case "burn":
			op.Amt = int64(rapid.SampledFrom([]int{8, 9, 10, 11, 18, 19, 20, 98, 99, 100}).Draw(t, "burn"))
		case "create":
			op.Name = rapid.SampledFrom(names).Draw(t, "name")
			op.UUs = []UU{{RG: 1, Req: 10}}
			liveCount[s]++
		default:
			op.Sess = rapid.IntRange(0, 3).Draw(t, "sess")
			op.UUs = []UU{{RG: int32(rapid.IntRange(1, 3).Draw(t, "rg")), Req: 10, Conts: []Cont{{Q: "offline", Tot: int32(rapid.IntRange(0, 99).Draw(t, "tot")), Pm: -1}}}}
			if k == "update" && rapid.IntRange(0, 4).Draw(t, "bulk") == 0 {
				op.UUs[0].Jumbo = 2000 // two of these on one session make its record split (what a reference designates must survive that)
			}
			if k == "release" {
				op.Trig = "FINAL"
				liveCount[s]--
			}
		}
		hst.Ops = append(hst.Ops, op)
	}
	return hst
}

func TestC10References(t *testing.T) { h.Run(t, "C10", "sequential", genC10, judgeC10) }

// Constructive search for concatenation ambiguity: one digit string D is cut
// in two different ways into (SUPI suffix, consumer name, counter); both
// sessions are created at exactly those counter values (other consumers'
// creates in between) and kept open.  Whatever separator scheme the product
// uses, the two references must differ.
func genAmbiguity(t *rapid.T) Hist {
	n := rapid.IntRange(2, 5).Draw(t, "len")
	d := make([]byte, n)
	for i := range d {
		d[i] = byte('0' + rapid.IntRange(0, 9).Draw(t, "digit"))
	}
	D := string(d)
	type cut struct{ i, j int }
	var cuts []cut
	for i := 0; i <= n && i <= 3; i++ {
		for j := i; j < n; j++ {
			c := D[j:]
			if len(c) > 3 || (len(c) > 1 && c[0] == '0') {
				continue
			}
			cuts = append(cuts, cut{i, j})
		}
	}
	if len(cuts) < 2 {
		return Hist{Base: true, Subs: []Sub{{Acct: [3]Acct{{1, 1000}, {1, 1000}, {1, 1000}}, Suffix: "1"}}, Ops: []Op{{K: "create", S: 0, Name: "s", UUs: []UU{{RG: 1, Req: 1}}}}}
	}
	a := rapid.SampledFrom(cuts).Draw(t, "cutA")
	b := rapid.SampledFrom(cuts).Draw(t, "cutB")
	atoi := func(s string) uint64 {
		var v uint64
		for _, ch := range s {
			v = v*10 + uint64(ch-'0')
		}
		return v
	}
	ca, cb := atoi(D[a.j:]), atoi(D[b.j:])
	if ca > cb {
		a, b, ca, cb = b, a, cb, ca
	}
	hst := Hist{Base: true, Seq: ca}
	acct := [3]Acct{{1, 100000}, {1, 100000}, {1, 100000}}
	hst.Subs = append(hst.Subs, Sub{Acct: acct, Suffix: D[:a.i]})
	sb := 0
	if D[:b.i] != D[:a.i] {
		hst.Subs = append(hst.Subs, Sub{Acct: acct, Suffix: D[:b.i]})
		sb = 1
	}
	hst.Ops = append(hst.Ops, Op{K: "create", S: 0, Name: D[a.i:a.j], UUs: []UU{{RG: 1, Req: 10}}})
	if cb > ca+1 {
		hst.Ops = append(hst.Ops, Op{K: "burn", Amt: int64(cb - ca - 1)})
	}
	if cb != ca {
		hst.Ops = append(hst.Ops, Op{K: "create", S: sb, Name: D[b.i:b.j], UUs: []UU{{RG: 1, Req: 10}}})
		// and use both references
		hst.Ops = append(hst.Ops, Op{K: "update", S: 0, UUs: []UU{{RG: 1, Req: 10, Conts: []Cont{{Q: "offline", Tot: 1, Pm: -1}}}}},
			Op{K: "update", S: sb, Sess: 1, UUs: []UU{{RG: 1, Req: 10, Conts: []Cont{{Q: "offline", Tot: 2, Pm: -1}}}}})
	}
	return hst
}

func TestC10Ambiguity(t *testing.T) { h.Run(t, "C10", "ambiguity", genAmbiguity, judgeC10) }

func TestC10Volume(t *testing.T) {
	h.Run(t, "C10", "volume", func(t *rapid.T) Hist { return genVolumeHist(t, true) }, volumeOf(judgeC10, true))
}

func TestC10Outage(t *testing.T) {
	h.Run(t, "C10", "outage", func(t *rapid.T) Hist { return genOutageHist(t, true, false) }, outageOf(judgeOutage(false)))
}
