package stack

// Operation fill: a session's record is filled, update by update, right up to the 65535-octet record limit.  First a
// few bulk reports, then hundreds of small ones (one or two containers each) until little room is left, then one
// report built to the octet: appended to the record as it stands, it would make the record exactly 65535 + op.Amt
// octets long (op.Amt from a few octets under to a few octets over the limit).  What the CHF does with it - append, or
// close the record and continue in a new one - is judged by the checks that follow every operation (C02: every
// container exactly once; C03: every record fits, the file parses).  The size is predicted with the product's own
// converter and encoder applied to a copy of the record (the encoder itself is judged by C04).

import (
	"net/http"

	"github.com/free5gc/chf/verifapi"
)

// sizeAfter: encoded size of the session's record if the usage of op were appended to it now (-1: no record).
func (w *World) sizeAfter(st *subState, se *sess, op *Op) int {
	if op == nil {
		return verifapi.RecordSizeWith(st.supi, se.ref, nil)
	}
	saved := w.lsn
	units, _, _ := w.buildUnits(*op, se, true)
	w.lsn = saved
	return verifapi.RecordSizeWith(st.supi, se.ref, units)
}

const recordLimit = 65535

// widths of an INTEGER's contents: 1, 2, 3 and 4 octets
var widthVals = []int32{1, 300, 70000, 20000000}

func (w *World) fill(st *subState, se *sess, op Op) *Result {
	rg := op.RG
	if rg < 1 || rg > 3 {
		rg = 2
	}
	sessIdx := 0
	for i, x := range st.live() {
		if x == se {
			sessIdx = i
		}
	}
	upd := func(uu UU) *Result {
		return w.Exec(Op{K: "update", S: op.S, Sess: sessIdx, UUs: []UU{uu}})
	}
	var last *Result
	steps := 0
	// bulk reports up to about five sixths
	for steps < 40 {
		sz := w.sizeAfter(st, se, nil)
		if sz < 0 || sz > 57000 {
			break
		}
		steps++
		n := 500
		if sz > 44000 {
			n = 100
		}
		if last = upd(UU{RG: rg, Jumbo: n}); last.Status != http.StatusOK {
			return last
		}
	}
	// small reports (about 150 of them) until little room is left; the size is measured every eighth step
	small := func(i int) UU {
		c := []Cont{{Q: "offline", Tot: int32(1 + i%5), Up: 1, Down: 2, SSU: 3, Pm: -1}}
		if i%2 == 1 {
			c = append(c, Cont{Q: "offline", Tot: int32(200 + i), Up: 1, Down: 2, SSU: 3, Pm: -1})
		}
		return UU{RG: rg, Conts: c}
	}
	for i := 0; i < 3000; i++ {
		if i%8 == 0 {
			if sz := w.sizeAfter(st, se, nil); sz < 0 || sz > recordLimit-1700 {
				break
			}
		}
		steps++
		if last = upd(small(i)); last.Status != http.StatusOK {
			return last
		}
	}
	for i := 0; i < 60; i++ {
		o := Op{K: "update", S: op.S, Sess: sessIdx, UUs: []UU{small(i)}}
		if sz := w.sizeAfter(st, se, &o); sz < 0 || sz > recordLimit-700 {
			break
		}
		steps++
		if last = upd(small(i)); last.Status != http.StatusOK {
			return last
		}
	}
	// the last report, to the octet
	target := recordLimit + int(op.Amt)
	try := func(k, extra int) (UU, int) {
		uu := UU{RG: rg}
		for j := 0; j < k; j++ {
			c := Cont{Q: "offline", Tot: 1, Up: 1, Down: 1, SSU: 1, Pm: -1}
			// each step of extra widens one INTEGER of the container by one octet
			e := extra - 12*j
			for f := 0; f < 4 && e > 0; f++ {
				wd := e
				if wd > 3 {
					wd = 3
				}
				e -= wd
				switch f {
				case 0:
					c.Tot = widthVals[wd]
				case 1:
					c.Up = widthVals[wd]
				case 2:
					c.Down = widthVals[wd]
				case 3:
					c.SSU = widthVals[wd]
				}
			}
			uu.Conts = append(uu.Conts, c)
		}
		o := Op{K: "update", S: op.S, Sess: sessIdx, UUs: []UU{uu}}
		return uu, w.sizeAfter(st, se, &o)
	}
	// a container more adds a fixed number of octets (apart from length-octet boundaries): start at the count that
	// comes closest from below and look around it
	_, s1 := try(1, 0)
	_, s2 := try(2, 0)
	if s1 > 0 && s2 > s1 {
		k0 := 1 + (target-s1)/(s2-s1)
		for _, k := range []int{k0, k0 - 1, k0 + 1, k0 - 2} {
			if k < 1 || k > 80 {
				continue
			}
			_, lo := try(k, 0)
			if lo < 0 || target < lo || target > lo+12*k {
				continue
			}
			for _, extra := range []int{target - lo, target - lo - 1, target - lo + 1, target - lo - 2, target - lo + 2} {
				if extra < 0 || extra > 12*k {
					continue
				}
				if uu, sz := try(k, extra); sz == target {
					res := upd(uu)
					res.Op = op
					res.FillSteps, res.FillTarget = steps+1, target
					return res
				}
			}
		}
	}
	// no report of that exact size exists (a length octet boundary in between): nothing to judge
	if last == nil {
		last = &Result{Op: op, Sub: st}
	}
	last.Op, last.Skipped = op, true
	return last
}
