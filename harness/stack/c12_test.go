package stack

import (
	"crypto/sha1"
	"encoding/hex"
	"encoding/json"
	"fmt"
	"strings"
	"testing"
	"time"

	"pgregory.net/rapid"

	"github.com/free5gc/chf/verifapi"
	"github.com/free5gc/openapi/models"
	"verifharness/h"
	"verifharness/stackenv"
)

// worldDigest captures everything a rejected request must leave untouched.
func worldDigest(w *World) string {
	var sb strings.Builder
	for _, st := range w.subs {
		snap := snapshot(st.supi)
		fmt.Fprintf(&sb, "%s exists=%v locked=%v res=%v type=%v sessions=%v nrec=%d uri=%s|", st.supi, snap.Exists, snap.Locked, sortedMap(snap.Reserved), sortedMapI(snap.RatingType), snap.Sessions, snap.NRecords, snap.NotifyUri)
		list, by, _ := verifapi.Records(st.supi)
		b1, _ := json.Marshal(list)
		b2, _ := json.Marshal(by)
		hh := sha1.Sum(append(b1, b2...))
		sb.WriteString(hex.EncodeToString(hh[:8]))
		for rg := int32(1); rg <= 3; rg++ {
			q, _ := acctQuota(st.supi, rg)
			fmt.Fprintf(&sb, " q%d=%d", rg, q)
		}
		sb.WriteString("\n")
	}
	fmt.Fprintf(&sb, "writes=%d ues=%d", env.FM.WriteOps(), verifapi.UeCount())
	return sb.String()
}

func sortedMap(m map[int32]int64) string {
	return fmt.Sprint(m[1], m[2], m[3])
}
func sortedMapI(m map[int32]int) string {
	return fmt.Sprint(m[1], m[2], m[3])
}

func judgeC12(hst Hist) *h.Verdict {
	v := &h.Verdict{}
	w := NewWorld(hst)
	// a second world's subscriber supplies "foreign" session references
	foreign := NewWorld(Hist{Subs: []Sub{{Acct: [3]Acct{{1, 1000}, {1, 1000}, {1, 1000}}}}})
	fres := foreign.Exec(Op{K: "create", S: 0, Name: "smfF", UUs: []UU{{RG: 1, Req: 10}}})
	if fres.Status != 201 {
		return v.Failf("create-status", "create answered %d, want 201", fres.Status)
	}
	env.Notifications()
	for step, op := range hst.Ops {
		st := w.subs[op.S%len(w.subs)]
		if op.K == "bad" {
			lv := st.live()
			before := worldDigest(w) + worldDigest(foreign)
			var path string
			now := time.Now()
			req := models.ChfConvergedChargingChargingDataRequest{SubscriberIdentifier: st.supi, ChargingId: 1,
				NfConsumerIdentification: &models.ChfConvergedChargingNfIdentification{NFName: "smf", NodeFunctionality: "SMF"},
				InvocationTimeStamp:      &now, InvocationSequenceNumber: 5, NotifyUri: env.Sink.URL + "/notify/hijacked"}
			units, _, _ := w.buildUnits(op, nil, true)
			req.MultipleUnitUsage = units
			// what the rejected request carries besides the reference: usage (default), nothing at all, or a trigger only
			switch op.Trig {
			case "bare":
				req.MultipleUnitUsage = nil
				v.Label("rejected-request-without-usage")
			case "trigger-only":
				req.MultipleUnitUsage = nil
				req.Triggers = trig("VOLUME_LIMIT")
				v.Label("rejected-request-without-usage")
			}
			verb := "update"
			if op.Sess%2 == 1 {
				verb = "release"
			}
			switch op.Bad {
			case "unknown-sub":
				req.SubscriberIdentifier = "imsi-5555" + st.supi[9:]
				ref := "nosuchsession"
				if len(lv) > 0 {
					ref = lv[0].ref
				}
				path = prefix + "/chargingdata/" + ref + "/" + verb
			case "unknown-ref":
				path = prefix + "/chargingdata/" + st.supi + "nosuch999/" + verb
			case "stale-ref":
				var stale *sess
				for _, s := range st.sess {
					if s.released {
						stale = s
					}
				}
				if stale == nil {
					continue
				}
				path = prefix + "/chargingdata/" + stale.ref + "/" + verb
			case "foreign-ref":
				path = prefix + "/chargingdata/" + foreign.subs[0].sess[0].ref + "/" + verb
			default:
				continue
			}
			snap := snapshot(st.supi)
			visible := snap.NRecords > 0 && (snap.Reserved[1] != 0 || snap.Reserved[2] != 0 || snap.Reserved[3] != 0)
			body, _ := json.Marshal(req)
			_ = verifapi.LoggedErrors()
			code, rb, _ := doHTTP("POST", path, body, nil)
			v.Label("rejected:" + op.Bad + ":" + verb)
			if visible {
				v.NT("rejection-with-visible-state")
			}
			if code < 400 || code >= 500 {
				return v.Failf("rejection-status/"+op.Bad+"/"+verb, "step %d: %s for %s answered %d %.200s, want 4xx", step, verb, op.Bad, code, rb)
			}
			after := worldDigest(w) + worldDigest(foreign)
			if before != after {
				return v.Failf("rejection-has-effect/"+op.Bad+"/"+verb, "step %d: %s for %s (answered %d) changed state:\nbefore: %s\nafter:  %s", step, verb, op.Bad, code, before, after)
			}
			continue
		}
		if op.K == "respell" {
			// a recharge whose rating group is written with leading zeros, for any rating group number: the
			// notification names the number the decimal digits denote (or the spelling is rejected, without effect)
			if !snapshot(st.supi).Exists {
				continue
			}
			env.Notifications()
			path := fmt.Sprintf("%s/recharging/%s_%s%d", prefix, st.supi, strings.Repeat("0", op.Lead), op.RG)
			before := worldDigest(w)
			code, rb, _ := doHTTP("PUT", path, nil, nil)
			var notes []stackenv.Notification
			for i := 0; i < 20 && len(notes) == 0; i++ {
				notes = append(notes, env.Notifications()...)
				if len(notes) == 0 && code != 204 {
					break
				}
				time.Sleep(5 * time.Millisecond)
			}
			time.Sleep(2 * time.Millisecond)
			notes = append(notes, env.Notifications()...)
			v.NT("recharge-spelled")
			switch {
			case code == 204:
				if len(notes) != 1 || len(notes[0].Body.ReauthorizationDetails) != 1 || notes[0].Body.ReauthorizationDetails[0].RatingGroup != op.RG {
					raw := ""
					if len(notes) > 0 {
						raw = notes[0].Raw
					}
					return v.Failf("recharge-notify-body/spelled", "step %d: PUT %s answered 204 and sent %d notifications (%s), want exactly one naming rating group %d", step, path, len(notes), raw, op.RG)
				}
				if notes[0].Path != st.notify {
					return v.Failf("recharge-notify-uri", "step %d: notification went to %s, the subscriber's consumer last registered %s", step, notes[0].Path, st.notify)
				}
			case code >= 400 && code < 500:
				if len(notes) != 0 || worldDigest(w) != before {
					return v.Failf("rejection-has-effect/recharge-spelled", "step %d: PUT %s answered %d, yet %d notifications were sent or state changed", step, path, code, len(notes))
				}
			default:
				return v.Failf("recharge-status", "step %d: PUT %s answered %d %.200s", step, path, code, rb)
			}
			continue
		}
		pre := snapshot(st.supi)
		env.Notifications()
		res := w.Exec(op)
		if res.Skipped {
			continue
		}
		if timedOut(res) {
			v.Skipped = true
			return v
		}
		switch op.K {
		case "create":
			if res.Status != 201 {
				return v.Failf("create-status", "step %d: create answered %d %.200s, want 201", step, res.Status, res.Body)
			}
			if res.Resp == nil || res.Resp.InvocationSequenceNumber != res.Req.InvocationSequenceNumber {
				return v.Failf("create-body", "step %d: create body %.200s does not echo invocationSequenceNumber %d", step, res.Body, res.Req.InvocationSequenceNumber)
			}
			ref := refOf(res.Location)
			if ref == "" || !strings.HasSuffix(res.Location, "/chargingdata/"+ref) || strings.Contains(ref, "/") {
				return v.Failf("create-location", "step %d: Location %q does not end in /chargingdata/<ref>", step, res.Location)
			}
			v.Label("create")
		case "update":
			if res.Status != 200 {
				return v.Failf("update-status", "step %d: update of a live session answered %d %.200s, want 200", step, res.Status, res.Body)
			}
			if res.Resp == nil || res.Resp.InvocationSequenceNumber != res.Req.InvocationSequenceNumber || res.Resp.InvocationTimeStamp == nil {
				return v.Failf("update-body", "step %d: update body %.200s lacks the sequence number echo %d or the invocation timestamp", step, res.Body, res.Req.InvocationSequenceNumber)
			}
			v.Label("update")
		case "release":
			if res.Status != 204 {
				return v.Failf("release-status", "step %d: release of a live session answered %d %.200s, want 204", step, res.Status, res.Body)
			}
			if len(res.Body) != 0 {
				return v.Failf("release-body", "step %d: 204 with a body %.100s", step, res.Body)
			}
			v.Label("release")
		case "fill":
			if res.Status != 200 {
				return v.Failf("update-status", "step %d: update number %d of a session whose record is being filled (aiming at %d octets) answered %d %.200s, want 200", step, res.FillSteps, res.FillTarget, res.Status, res.Body)
			}
			v.Label("record-filled-to-the-limit-in-small-steps")
			if res.FillTarget != 0 {
				v.Label("last-report-built-to-the-octet")
			}
		case "bystanders":
			if res.Status != 201 {
				return v.Failf("create-status/bystander", "step %d: %s answered %d: %.300s", step, res.Path, res.Status, res.Body)
			}
		case "recharge":
			if res.Status != 204 {
				return v.Failf("recharge-status", "step %d: recharge for a known subscriber answered %d, want 204", step, res.Status)
			}
			// give the (synchronous) notification a moment in case it is ever made asynchronous
			var notes []stackenv.Notification
			for i := 0; i < 20; i++ {
				notes = append(notes, env.Notifications()...)
				if len(notes) > 0 {
					break
				}
				time.Sleep(5 * time.Millisecond)
			}
			time.Sleep(2 * time.Millisecond)
			notes = append(notes, env.Notifications()...)
			if !pre.Exists {
				// the subscriber has no charging context yet: nothing to notify
				continue
			}
			rg := op.RG
			if rg < 1 || rg > 3 {
				rg = 1
			}
			if pre.RatingType[rg] == 2 {
				v.NT("recharge-after-debit")
			} else {
				v.NT("recharge")
			}
			if len(notes) != 1 {
				return v.Failf("recharge-notifications", "step %d: recharge sent %d notifications, want exactly 1", step, len(notes))
			}
			n := notes[0]
			if n.Path != st.notify {
				return v.Failf("recharge-notify-uri", "step %d: notification went to %s, the subscriber's consumer last registered %s", step, n.Path, st.notify)
			}
			if st.creates > 1 {
				v.NT("recharge-after-several-registrations")
			}
			if strings.HasPrefix(st.notify, "/notify-") {
				v.Label("consumer-answers-notification-with-other-status")
			}
			if len(n.Body.ReauthorizationDetails) != 1 || n.Body.ReauthorizationDetails[0].RatingGroup != act(st.supi, rg) {
				return v.Failf("recharge-notify-body", "step %d: notification body %s does not name exactly rating group %d", step, n.Raw, rg)
			}
		}
		if len(res.Panics) > 0 {
			return v.Failf("handler-panic/"+op.K+"/"+h.PanicFrame(res.Panics[0]), "step %d: handler panicked: %.2000s", step, res.Panics[0])
		}
	}
	return v
}

func genC12(t *rapid.T) Hist {
	hst := genHist(t, genOpts{maxSubs: 2, maxSess: 2, minOps: 4, maxOps: h.Scale(16, 30), recharge: true, offline: true, rgNums: true})
	// interleave rejected requests
	var ops []Op
	for _, op := range hst.Ops {
		ops = append(ops, op)
		if rapid.IntRange(0, 2).Draw(t, "bad") == 0 {
			b := Op{K: "bad", S: op.S, Sess: rapid.IntRange(0, 1).Draw(t, "verb"),
				Bad:  rapid.SampledFrom([]string{"unknown-sub", "unknown-ref", "stale-ref", "foreign-ref"}).Draw(t, "badKind"),
				Trig: rapid.SampledFrom([]string{"", "", "", "bare", "trigger-only"}).Draw(t, "badCarries"),
				UUs: []UU{{RG: int32(rapid.IntRange(1, 3).Draw(t, "brg")), Req: int32(rapid.IntRange(0, 500).Draw(t, "breq")),
					Conts: []Cont{{Q: "online", Tot: int32(rapid.IntRange(0, 300).Draw(t, "btot")), Pm: -1}}}}}
			ops = append(ops, b)
		}
		if rapid.IntRange(0, 5).Draw(t, "respell") == 0 {
			ops = append(ops, Op{K: "respell", S: op.S, RG: int32(rapid.SampledFrom([]int{1, 2, 3, 8, 9, 10, 21, 64, 100, 777}).Draw(t, "srg")), Lead: rapid.SampledFrom([]int{0, 1, 1, 2, 3}).Draw(t, "lead")})
		}
	}
	hst.Ops = ops
	return hst
}

func TestC12Contract(t *testing.T) { h.Run(t, "C12", "histories", genC12, judgeC12) }

func TestC12Volume(t *testing.T) {
	h.Run(t, "C12", "volume", func(t *rapid.T) Hist { return genVolumeHist(t, true) }, volumeOf(judgeC12, true))
}

// Fill: the contract holds for a session whose record is almost full: the update that does not fit any more and the
// release that carries a last report are answered like any other.
func TestC12Fill(t *testing.T) {
	h.Run(t, "C12", "fill", func(t *rapid.T) Hist {
		var hst Hist
		for i := 0; i < h.Scale(1, 2); i++ {
			hst.Subs = append(hst.Subs, Sub{Acct: [3]Acct{{1, 1 << 40}, {1, 1 << 40}, {1, 5000}}})
			hst.Ops = append(hst.Ops, Op{K: "create", S: i, Name: "smf", UUs: []UU{{RG: 1, Req: 10}}})
			hst.Ops = append(hst.Ops, Op{K: "fill", S: i, Sess: 0, RG: 2, Amt: int64(rapid.SampledFrom([]int{-400, -200, -60, -6, 0, 1, 6, 12}).Draw(t, "slack"))})
			hst.Ops = append(hst.Ops, Op{K: "release", S: i, Sess: 0, UUs: []UU{{RG: 2, Jumbo: rapid.SampledFrom([]int{0, 1, 40, 100}).Draw(t, "lastReport")}}})
			hst.Ops = append(hst.Ops, Op{K: "create", S: i, Name: "smf", UUs: []UU{{RG: 1, Req: 10}}})
			hst.Ops = append(hst.Ops, Op{K: "update", S: i, Sess: 0, UUs: []UU{{RG: 2, Req: 5}}})
			hst.Ops = append(hst.Ops, Op{K: "release", S: i, Sess: 0})
		}
		return hst
	}, func(hst Hist) *h.Verdict {
		v := judgeC12(hst)
		v.NonTrivial = true
		return v
	})
}

func TestC12Outage(t *testing.T) {
	h.Run(t, "C12", "outage", func(t *rapid.T) Hist { return genOutageHist(t, false, true) }, outageOf(judgeC12))
}
