package stack

import (
	"fmt"

	"pgregory.net/rapid"

	"verifharness/h"
)

// Outage: histories in which something the CHF depends on fails in the middle and comes back - the rating function,
// the account balance function or both refuse connections for a while (operation peers), a subscriber's CDR file cannot
// be written for a while (operations blockfile / unblockfile, with files) - while the subscribers go on sending
// requests; at the end everything works again and every session is used once more and released.  All unit costs are 1
// (without a tariff the CHF prices usage at unit cost 1: with another cost the reference books would differ for a
// reason that is not the property under test).
func genOutageHist(t *rapid.T, files, bad bool) Hist {
	var hst Hist
	small := int64(rapid.IntRange(150, 600).Draw(t, "smallBalance"))
	hst.Subs = []Sub{{Acct: [3]Acct{{1, small}, {1, 1 << 40}, {1, 1 << 40}}}, {Acct: [3]Acct{{1, 1 << 40}, {1, 1 << 40}, {1, 1 << 40}}}}
	add := func(op Op) { hst.Ops = append(hst.Ops, op) }
	add(Op{K: "create", S: 0, Name: "smf", UUs: []UU{{RG: 1, Req: 100}}})
	add(Op{K: "create", S: 1, Name: "smf", UUs: []UU{{RG: 1, Req: 100}}})
	add(Op{K: "create", S: 1, Name: "smf2", UUs: []UU{{RG: 2, Req: 50}}})
	usage := func(n string) []UU {
		rg := int32(rapid.IntRange(1, 2).Draw(t, n+"RG"))
		c := Cont{Q: "online", Pm: rapid.SampledFrom([]int{0, 100, 500, 1000, 1000}).Draw(t, n+"Share")}
		uu := []UU{{RG: rg, Req: int32(rapid.SampledFrom([]int{0, 50, 100, 100, 300}).Draw(t, n+"Req")), Conts: []Cont{c}}}
		if rapid.IntRange(0, 3).Draw(t, n+"Two") == 0 {
			uu = append(uu, UU{RG: 3 - rg, Req: 40, Conts: []Cont{{Q: "online", Pm: 500}}})
		}
		return uu
	}
	if bad {
		// a final report whose refund cannot be made (the account function is unreachable), then - everything works
		// again - a request for the reference that has just been released
		add(Op{K: "update", S: 1, Sess: 1, UUs: []UU{{RG: 2, Req: 50, Conts: []Cont{{Q: "online", Pm: 0}}}}})
		add(Op{K: "peers", S: 0, Name: "abmf-down"})
		add(Op{K: "release", S: 1, Sess: 1, Trig: "FINAL", UUs: []UU{{RG: 2, Req: 0, Conts: []Cont{{Q: "online", Pm: 100}}}}})
		add(Op{K: "peers", S: 0, Name: "up"})
		add(Op{K: "bad", S: 1, Bad: "stale-ref", UUs: []UU{{RG: 2, Req: 10, Conts: []Cont{{Q: "online", Tot: 1, Pm: -1}}}}})
		add(Op{K: "create", S: 1, Name: "smf2", UUs: []UU{{RG: 2, Req: 50}}})
	}
	if files {
		// a one-time event while the subscriber's file cannot be written, then an ordinary request
		add(Op{K: "blockfile", S: 0})
		add(Op{K: "event", S: 0, UUs: []UU{{RG: 3, Req: 0, Conts: []Cont{{Q: "offline", Tot: 7, Pm: -1}}}}})
		add(Op{K: "unblockfile", S: 0})
		add(Op{K: "update", S: 0, Sess: 0, UUs: []UU{{RG: 1, Req: 100, Conts: []Cont{{Q: "online", Pm: 500}}}}})
	}
	down, blocked := false, map[int]bool{}
	n := rapid.IntRange(10, h.Scale(22, 40)).Draw(t, "steps")
	for i := 0; i < n; i++ {
		s := rapid.IntRange(0, 1).Draw(t, "sub")
		switch k := rapid.IntRange(0, 11).Draw(t, "kind"); {
		case k <= 4:
			add(Op{K: "update", S: s, Sess: rapid.IntRange(0, 2).Draw(t, "sess"), UUs: usage("u"),
				Trig: rapid.SampledFrom([]string{"", "", "", "VOLUME_LIMIT", "MGMT", "FINAL"}).Draw(t, "trig")})
		case k <= 6:
			if down {
				add(Op{K: "peers", S: 0, Name: "up"})
			} else {
				add(Op{K: "peers", S: 0, Name: rapid.SampledFrom([]string{"rating-down", "abmf-down", "both-down", "rating-down"}).Draw(t, "which")})
			}
			down = !down
		case k == 7:
			add(Op{K: "release", S: s, Sess: rapid.IntRange(0, 2).Draw(t, "sess"), Trig: "FINAL", UUs: usage("r")})
			add(Op{K: "create", S: s, Name: "smf", UUs: []UU{{RG: 1, Req: 100}}})
		case k == 8 && files:
			if blocked[s] {
				add(Op{K: "unblockfile", S: s})
			} else {
				add(Op{K: "blockfile", S: s})
			}
			blocked[s] = !blocked[s]
		case k == 9 && bad:
			add(Op{K: "bad", S: s, Bad: rapid.SampledFrom([]string{"stale-ref", "unknown-ref", "foreign-ref"}).Draw(t, "bad"), UUs: usage("b")})
		case k == 10:
			add(Op{K: "recharge", S: s, RG: 1, Amt: 200})
		default:
			add(Op{K: "update", S: s, Sess: rapid.IntRange(0, 2).Draw(t, "sess2"), UUs: usage("v")})
		}
	}
	// everything works again
	add(Op{K: "peers", S: 0, Name: "up"})
	for s := 0; s < 2; s++ {
		if blocked[s] {
			add(Op{K: "unblockfile", S: s})
		}
	}
	for s := 0; s < 2; s++ {
		for k := 0; k < 3; k++ {
			add(Op{K: "update", S: s, Sess: k, UUs: []UU{{RG: 1, Req: 100, Conts: []Cont{{Q: "online", Pm: 500}}}}})
		}
		if bad {
			add(Op{K: "bad", S: s, Bad: "stale-ref", UUs: []UU{{RG: 1, Req: 10}}})
		}
		add(Op{K: "release", S: s, Sess: 0, Trig: "FINAL", UUs: []UU{{RG: 1, Req: 0, Conts: []Cont{{Q: "online", Pm: 300}}}}})
	}
	return hst
}

// outageOf labels what the history contained.
func outageOf(j func(Hist) *h.Verdict) func(Hist) *h.Verdict {
	return func(hst Hist) *h.Verdict {
		v := j(hst)
		for i, op := range hst.Ops {
			switch op.K {
			case "peers":
				if op.Name != "up" && i+1 < len(hst.Ops) && hst.Ops[i+1].K != "peers" {
					v.Label("requests-while:" + op.Name)
					v.NonTrivial = true
				}
			case "blockfile":
				v.Label("requests-while:cdr-file-unwritable")
			}
		}
		return v
	}
}

// judgeOutage: what must hold whatever fails around the CHF.  While a collaborator is unreachable or the subscriber's
// CDR file cannot be written a request may be answered with any status - but it is answered; and as soon as
// everything works again every request is served like any other: the sessions that were never released still accept
// updates and a release under the reference their create returned, no subscriber is left blocked, nothing panics.
func judgeOutage(strict5xx bool) func(Hist) *h.Verdict {
	return func(hst Hist) *h.Verdict {
		v := &h.Verdict{}
		w := NewWorld(hst)
		for step, op := range hst.Ops {
			st := w.subs[op.S%len(w.subs)]
			faulty := w.ratingDown || w.abmfDown || st.fileBlocked
			res := w.Exec(op)
			if res.Skipped {
				continue
			}
			if timedOut(res) {
				v.Skipped = true
				return v
			}
			during := "while everything works"
			if faulty {
				during = fmt.Sprintf("while rating down=%v, account function down=%v, CDR file unwritable=%v", w.ratingDown, w.abmfDown, st.fileBlocked)
			}
			if res.Status == statusHung {
				return v.Failf("request-never-returns/"+op.K, "step %d of %d (%s, subscriber %d, %s): %s", step, len(hst.Ops), op.K, op.S, during, res.Body)
			}
			if op.K != "create" && op.K != "update" && op.K != "release" && op.K != "recharge" && op.K != "event" {
				continue
			}
			if len(res.Panics) > 0 && !st.fileBlocked {
				// (an unwritable CDR file makes the file writer panic on the unchanged tree as well: not judged here)
				return v.Failf("handler-panic/"+op.K+"/"+h.PanicFrame(res.Panics[0]), "step %d (%s): handler panicked: %.2000s", step, during, res.Panics[0])
			}
			if faulty {
				if strict5xx && res.Status >= 500 && !st.fileBlocked {
					return v.Failf("5xx/"+op.K+"/collaborator-unreachable", "step %d (%s): %s answered %d %.300s", step, during, op.K, res.Status, res.Body)
				}
				continue
			}
			want := map[string]int{"create": 201, "event": 201, "update": 200, "release": 204, "recharge": 204}[op.K]
			if res.Status != want {
				return v.Failf("session-unusable-after-outage/"+op.K, "step %d (everything works again): %s for subscriber %d answered %d %.300s, want %d; the session was created earlier and never released", step, op.K, op.S, res.Status, res.Body, want)
			}
		}
		return v
	}
}
