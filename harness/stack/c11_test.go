package stack

import (
	"encoding/json"
	"fmt"
	"net/url"
	"sort"
	"strconv"
	"strings"
	"testing"
	"time"

	"pgregory.net/rapid"

	"github.com/free5gc/chf/verifapi"
	"verifharness/h"
)

// C11Case: one (possibly unacceptable) request, followed by a normal request
// for the same subscriber.
type C11Case struct {
	Route   string   `json:"route"`           // create | update | release | recharge
	Supi    string   `json:"supi,omitempty"`  // SUPI shape in the body: "" valid; nodash|nai|gci|gli|short|slash|dotdot|long|empty|imsi-only
	Ref     string   `json:"ref,omitempty"`   // path parameter shape: "" the real one; unknown|slashy|long|percent
	Drop    []string `json:"drop,omitempty"`  // JSON member paths deleted
	Null    []string `json:"null,omitempty"`  // JSON member paths set to null
	Empty   []string `json:"empty,omitempty"` // JSON member paths whose value is replaced by an empty value of its kind: {} [] "" 0
	Mcc     string   `json:"mcc"`             // nFPLMNID digits
	Mnc     string   `json:"mnc"`
	PDU     bool     `json:"pdu,omitempty"` // carry pDUSessionChargingInformation
	Reg     bool     `json:"reg,omitempty"` // carry registrationChargingInformation
	Trig    string   `json:"trig,omitempty"`
	Q       string   `json:"q"`                 // quota management indicator of the container
	OneTime bool     `json:"oneTime,omitempty"` // oneTimeEvent create
	Rech    string   `json:"rech,omitempty"`    // recharging path parameter shape: ok|nounderscore|many|nonnumeric|empty-rg|unknown-ue|negative
	Garbage string   `json:"garbage,omitempty"` // a body that is not a charging data request at all
	NMUU    int      `json:"nMuu,omitempty"`    // extra multipleUnitUsage entries (0-2)
	NCont   int      `json:"nCont,omitempty"`   // extra used-unit containers in the first entry (0-2)
	Pad     int      `json:"pad,omitempty"`     // insignificant white space inside the JSON document (octets)
	CT      string   `json:"ct,omitempty"`      // Content-Type header of the request ("": application/json; "-": none)
	NoNotif bool     `json:"noNotif,omitempty"` // the session addressed by update/release/recharge was created without the optional notifyUri
}

var dropPaths = []string{
	"nfConsumerIdentification", "nfConsumerIdentification.nFName", "nfConsumerIdentification.nodeFunctionality", "nfConsumerIdentification.nFPLMNID",
	"nfConsumerIdentification.nFPLMNID.mcc", "nfConsumerIdentification.nFPLMNID.mnc", "invocationTimeStamp", "invocationSequenceNumber", "notifyUri",
	"subscriberIdentifier", "chargingId", "multipleUnitUsage", "multipleUnitUsage.0.requestedUnit", "multipleUnitUsage.0.requestedUnit.totalVolume",
	"multipleUnitUsage.0.usedUnitContainer", "multipleUnitUsage.0.usedUnitContainer.0.quotaManagementIndicator", "multipleUnitUsage.0.usedUnitContainer.0.localSequenceNumber",
	"multipleUnitUsage.0.ratingGroup", "triggers", "triggers.0.triggerType", "triggers.0.triggerCategory",
	"pDUSessionChargingInformation.pduSessionInformation", "pDUSessionChargingInformation.pduSessionInformation.networkSlicingInfo",
	"pDUSessionChargingInformation.pduSessionInformation.networkSlicingInfo.sNSSAI", "pDUSessionChargingInformation.pduSessionInformation.networkSlicingInfo.sNSSAI.sd",
	"pDUSessionChargingInformation.pduSessionInformation.dnnId", "pDUSessionChargingInformation.pduSessionInformation.pduSessionID", "pDUSessionChargingInformation.chargingId",
	"pDUSessionChargingInformation.userInformation",
}

func genC11(t *rapid.T) C11Case {
	c := C11Case{Route: rapid.SampledFrom([]string{"create", "lifecycle", "update", "update", "release", "recharge"}).Draw(t, "route")}
	c.Mcc = rapid.SampledFrom([]string{"208", "208", "208", "", "2", "20", "2081", "abc", "1\u00e9", "20\uff18", "\u00e9\u00e9\u00e9", "\uff12", "\u0662" + "0", "2" + "\u0660"}).Draw(t, "mcc")
	c.Mnc = rapid.SampledFrom([]string{"93", "93", "930", "", "9", "9300", "x", "\u00e9", "9\u00e9", "\uff19\uff13", "\u0669", "\uff19", "9" + "\u0663"}).Draw(t, "mnc")
	c.NMUU = rapid.SampledFrom([]int{0, 0, 1, 2}).Draw(t, "nMuu")
	c.NCont = rapid.SampledFrom([]int{0, 0, 1, 2}).Draw(t, "nCont")
	c.PDU = rapid.Bool().Draw(t, "pdu")
	c.Reg = rapid.IntRange(0, 2).Draw(t, "reg") == 0
	if rapid.IntRange(0, 4).Draw(t, "otherContentType") == 0 {
		c.CT = rapid.SampledFrom([]string{"-", "application/json; charset=utf-8", "application/problem+json", "text/plain", "application/xml", "multipart/related; boundary=----Boundary", "multipart/related", "application/x-www-form-urlencoded", "*/*", "APPLICATION/JSON"}).Draw(t, "contentType")
	}
	c.Q = rapid.SampledFrom([]string{"ONLINE_CHARGING", "ONLINE_CHARGING", "OFFLINE_CHARGING", "QUOTA_MANAGEMENT_SUSPENDED", "", "BOGUS"}).Draw(t, "q")
	c.Trig = rapid.SampledFrom([]string{"", "", "FINAL", "VOLUME_LIMIT", "MANAGEMENT_INTERVENTION", "BOGUS"}).Draw(t, "trig")
	c.NoNotif = rapid.IntRange(0, 3).Draw(t, "noNotif") == 0
	if rapid.IntRange(0, 7).Draw(t, "padded") == 0 {
		c.Pad = rapid.SampledFrom([]int{1000, 65536, 70000, 300000}).Draw(t, "pad")
	}
	if c.Route == "recharge" {
		c.Rech = rapid.SampledFrom([]string{"ok", "nounderscore", "many", "nonnumeric", "empty-rg", "unknown-ue", "negative", "only-underscore"}).Draw(t, "rech")
		return c
	}
	n := rapid.SampledFrom([]int{0, 1, 1, 1, 2, 3}).Draw(t, "nDrop")
	for i := 0; i < n; i++ {
		p := rapid.SampledFrom(dropPaths).Draw(t, "path")
		if k := rapid.IntRange(0, 5).Draw(t, "null"); k == 0 {
			c.Null = append(c.Null, p)
		} else if k <= 2 {
			c.Empty = append(c.Empty, p)
		} else {
			c.Drop = append(c.Drop, p)
		}
	}
	if rapid.IntRange(0, 3).Draw(t, "oddSupi") == 0 {
		c.Supi = rapid.SampledFrom([]string{"nodash", "nai", "gci", "gli", "short", "slash", "dotdot", "long", "empty", "imsi-only", "unknown"}).Draw(t, "supi")
	}
	if c.Route != "create" && rapid.IntRange(0, 4).Draw(t, "oddRef") == 0 {
		c.Ref = rapid.SampledFrom([]string{"unknown", "slashy", "long", "percent", "supi", "supi-dash", "prefix", "empty-counter"}).Draw(t, "ref")
	}
	if c.Route == "create" || c.Route == "lifecycle" {
		c.OneTime = rapid.IntRange(0, 5).Draw(t, "oneTime") == 0
	}
	if rapid.IntRange(0, 25).Draw(t, "garbage") == 0 {
		c.Garbage = rapid.SampledFrom([]string{"", "{", "[]", "null", "\"x\"", "{\"multipleUnitUsage\":7}", "{\"subscriberIdentifier\":5}", "<xml/>"}).Draw(t, "garbageBody")
	}
	return c
}

func setPath(m map[string]interface{}, path string, del bool) bool {
	parts := strings.Split(path, ".")
	var cur interface{} = m
	for i, p := range parts {
		last := i == len(parts)-1
		switch node := cur.(type) {
		case map[string]interface{}:
			if last {
				if _, ok := node[p]; !ok {
					return false
				}
				if del {
					delete(node, p)
				} else {
					node[p] = nil
				}
				return true
			}
			cur = node[p]
		case []interface{}:
			idx, err := strconv.Atoi(p)
			if err != nil || idx >= len(node) {
				return false
			}
			cur = node[idx]
		default:
			return false
		}
	}
	return false
}

// emptyPath replaces the member at path by the empty value of its kind (present, but with nothing in it).
func emptyPath(m map[string]interface{}, path string) {
	parts := strings.Split(path, ".")
	var cur interface{} = m
	for i, p := range parts {
		last := i == len(parts)-1
		switch node := cur.(type) {
		case map[string]interface{}:
			if last {
				switch node[p].(type) {
				case map[string]interface{}:
					node[p] = map[string]interface{}{}
				case []interface{}:
					node[p] = []interface{}{}
				case string:
					node[p] = ""
				case nil:
				default:
					node[p] = 0
				}
				return
			}
			cur = node[p]
		case []interface{}:
			idx, err := strconv.Atoi(p)
			if err != nil || idx >= len(node) {
				return
			}
			cur = node[idx]
		default:
			return
		}
	}
}

func (c C11Case) supi(valid string) string {
	switch c.Supi {
	case "nodash":
		return "imsi" + valid[5:]
	case "nai":
		return "nai-" + valid[5:] + "@example.org"
	case "gci":
		return "gci-" + valid[5:]
	case "gli":
		return "gli-" + valid[5:]
	case "short":
		return "ims"
	case "slash":
		return valid + "/x"
	case "dotdot":
		return "imsi-../../" + valid[5:]
	case "long":
		return valid + strings.Repeat("9", 300)
	case "empty":
		return ""
	case "imsi-only":
		return "imsi-"
	case "unknown":
		return "imsi-555" + valid[8:]
	}
	return valid
}

func (c C11Case) body(supi string, chargingID int32, lsn int32) []byte {
	if c.Garbage != "" || (c.Garbage == "" && false) {
		return []byte(c.Garbage)
	}
	m := map[string]interface{}{
		"subscriberIdentifier": supi,
		"chargingId":           chargingID,
		"nfConsumerIdentification": map[string]interface{}{
			"nFName": "smf", "nFIPv4Address": "10.0.0.1", "nodeFunctionality": "SMF", "nFFqdn": "smf.example.org",
			"nFPLMNID": map[string]interface{}{"mcc": c.Mcc, "mnc": c.Mnc},
		},
		"invocationTimeStamp":      time.Now().UTC().Format(time.RFC3339),
		"invocationSequenceNumber": 3,
		"notifyUri":                env.Sink.URL + "/notify/" + url.PathEscape(supi),
		"multipleUnitUsage": []interface{}{map[string]interface{}{
			"ratingGroup": 1, "requestedUnit": map[string]interface{}{"totalVolume": 100}, "uPFID": "upf",
			"usedUnitContainer": []interface{}{map[string]interface{}{"quotaManagementIndicator": c.Q, "totalVolume": 1, "uplinkVolume": 1, "downlinkVolume": 0, "localSequenceNumber": lsn}},
		}},
	}
	muus := m["multipleUnitUsage"].([]interface{})
	first := muus[0].(map[string]interface{})
	for i := 0; i < c.NCont; i++ {
		first["usedUnitContainer"] = append(first["usedUnitContainer"].([]interface{}), map[string]interface{}{"quotaManagementIndicator": "OFFLINE_CHARGING", "totalVolume": 2, "localSequenceNumber": lsn + int32(10+i)})
	}
	for i := 0; i < c.NMUU; i++ {
		muus = append(muus, map[string]interface{}{"ratingGroup": 2 + i, "requestedUnit": map[string]interface{}{"totalVolume": 10},
			"usedUnitContainer": []interface{}{map[string]interface{}{"quotaManagementIndicator": "OFFLINE_CHARGING", "totalVolume": 1, "localSequenceNumber": lsn + int32(20+i)}}})
	}
	m["multipleUnitUsage"] = muus
	if c.Q == "" {
		delete(m["multipleUnitUsage"].([]interface{})[0].(map[string]interface{})["usedUnitContainer"].([]interface{})[0].(map[string]interface{}), "quotaManagementIndicator")
	}
	if c.Trig != "" {
		m["triggers"] = []interface{}{map[string]interface{}{"triggerType": c.Trig, "triggerCategory": "IMMEDIATE_REPORT"}}
	}
	if c.PDU {
		m["pDUSessionChargingInformation"] = map[string]interface{}{
			"chargingId": chargingID, "userInformation": map[string]interface{}{"servedGPSI": "msisdn-1"},
			"pduSessionInformation": map[string]interface{}{"pduSessionID": 1, "dnnId": "internet",
				"networkSlicingInfo": map[string]interface{}{"sNSSAI": map[string]interface{}{"sst": 1, "sd": "010203"}}},
		}
	}
	if c.Reg {
		m["registrationChargingInformation"] = map[string]interface{}{"registrationMessagetype": "INITIAL"}
	}
	if c.OneTime {
		m["oneTimeEvent"] = true
		m["oneTimeEventType"] = "IEC"
	}
	if c.Mcc == "" && c.Mnc == "" {
		// no PLMN at all
		delete(m["nfConsumerIdentification"].(map[string]interface{}), "nFPLMNID")
	}
	for _, p := range c.Drop {
		setPath(m, p, true)
	}
	for _, p := range c.Null {
		setPath(m, p, false)
	}
	for _, p := range c.Empty {
		emptyPath(m, p)
	}
	b, _ := json.Marshal(m)
	if c.Pad > 0 && len(b) > 2 {
		// white space between tokens is insignificant (RFC 8259): the same document, only longer
		b = append(append(append([]byte{}, b[0]), []byte(strings.Repeat(" \n", c.Pad/2))...), b[1:]...)
	}
	return b
}

func (c C11Case) classify(v *h.Verdict) {
	for _, p := range append(append([]string{}, c.Drop...), c.Null...) {
		v.NT("absent:" + strings.Split(p, ".")[0])
	}
	for _, p := range c.Empty {
		v.NT("empty:" + strings.Split(p, ".")[0])
	}
	if c.Supi != "" {
		v.NT("supi:" + c.Supi)
	}
	if c.Ref != "" {
		v.NT("ref:" + c.Ref)
	}
	if c.Rech != "" && c.Rech != "ok" {
		v.NT("recharging:" + c.Rech)
	}
	if len(c.Mcc) != 3 || (len(c.Mnc) != 2 && len(c.Mnc) != 3) {
		v.NT("plmn-digits")
	}
	if c.Garbage != "" {
		v.Label("not-a-charging-data-request")
	}
	if c.CT != "" {
		v.NT("content-type:other")
	}
	if c.Pad > 65000 && c.Garbage == "" && c.Route != "recharge" {
		v.NT("body>64KiB")
	}
	if c.NoNotif && c.Route == "recharge" && c.Rech == "ok" {
		v.NT("recharge-without-registered-notify-uri")
	}
	v.Label("route:" + c.Route)
}

func sigOf5xx(route string, c C11Case, panics []string) string {
	frame := "no-panic"
	if len(panics) > 0 {
		frame = h.PanicFrame(panics[0])
	}
	return "5xx/" + route + "/" + frame
}

func judgeC11(c C11Case) *h.Verdict {
	v := &h.Verdict{}
	c.classify(v)
	valid := env.NewSupi()
	acctSet(valid, 1, 1000000, "2")
	chargingIDSeq++
	cid := chargingIDSeq
	ref := ""
	// a normal session first, for the routes that address one
	if c.Route == "update" || c.Route == "release" || c.Route == "recharge" {
		pre := C11Case{Route: "create", Mcc: "208", Mnc: "93", Q: "ONLINE_CHARGING"}
		if c.NoNotif {
			pre.Drop = []string{"notifyUri"}
		}
		code, _, hd := doHTTP("POST", prefix+"/chargingdata", pre.body(valid, cid, 1), nil)
		if code != 201 {
			return v.Failf("HARNESS-setup", "setup create answered %d", code)
		}
		ref = refOf(hd.Get("Location"))
	}
	supi := c.supi(valid)
	if supi != valid {
		env.Track(supi)
	}
	_ = verifapi.LoggedErrors()
	var code int
	var rb []byte
	var path, method string
	switch c.Route {
	case "create", "lifecycle":
		method, path = "POST", prefix+"/chargingdata"
	case "update", "release":
		r := ref
		switch c.Ref {
		case "unknown":
			r = valid + "smf-424242"
		case "slashy":
			r = url.PathEscape(ref + "/../x")
		case "long":
			r = ref + strings.Repeat("z", 2000)
		case "percent":
			r = "%2e%2e%2f" + ref
		case "supi": // the reference equals the subscriber identifier itself
			r = supi
		case "supi-dash":
			r = supi + "-"
		case "prefix": // the real reference without its last character
			if len(ref) > 1 {
				r = ref[:len(ref)-1]
			}
		case "empty-counter": // the real reference without its counter
			if i := strings.LastIndex(ref, "-"); i > 0 {
				r = ref[:i+1]
			}
		}
		method, path = "POST", prefix+"/chargingdata/"+r+"/"+c.Route
	case "recharge":
		method = "PUT"
		switch c.Rech {
		case "ok":
			path = prefix + "/recharging/" + valid + "_1"
		case "nounderscore":
			path = prefix + "/recharging/" + valid
		case "many":
			path = prefix + "/recharging/" + valid + "_1_2_3"
		case "nonnumeric":
			path = prefix + "/recharging/" + valid + "_abc"
		case "empty-rg":
			path = prefix + "/recharging/" + valid + "_"
		case "unknown-ue":
			path = prefix + "/recharging/imsi-000_1"
		case "negative":
			path = prefix + "/recharging/" + valid + "_-5"
		case "only-underscore":
			path = prefix + "/recharging/_"
		}
	}
	done := make(chan struct{})
	go func() {
		defer close(done)
		var body []byte
		if c.Route != "recharge" {
			body = c.body(supi, cid, 2)
		}
		var hdr map[string]string
		if c.CT != "" {
			hdr = map[string]string{"Content-Type": c.CT}
			if c.CT == "-" {
				hdr = map[string]string{"Content-Type": ""}
			}
		}
		code, rb, _ = doHTTP(method, path, body, hdr)
	}()
	select {
	case <-done:
	case <-time.After(40 * time.Second):
		return v.Failf("request-hangs/"+c.Route, "%s %s did not return within 40 s", method, path)
	}
	var panics []string
	for _, m := range verifapi.LoggedErrors() {
		if strings.Contains(m, "panic") {
			panics = append(panics, m)
		}
	}
	if code >= 500 || len(panics) > 0 {
		msg := ""
		if len(panics) > 0 {
			msg = panics[0]
		}
		return v.Failf(sigOf5xx(c.Route, c, panics), "%s %s answered %d (panic logged: %v)\nbody sent: %.600s\n%.2500s", method, path, code, len(panics) > 0, c.body(supi, cid, 2), msg)
	}
	if c.Garbage != "" && c.Route != "recharge" && (code < 400 || code >= 500) {
		return v.Failf("garbage-accepted/"+c.Route, "body %q answered %d, want 4xx", c.Garbage, code)
	}
	_ = rb
	// lifecycle: a create that was accepted is followed by an update and a release of that very session (same, possibly odd, SUPI)
	if c.Route == "lifecycle" && code == 201 {
		var hdLoc string
		// re-create to learn the Location (doHTTP above dropped the header): use a second session of the same subscriber
		chargingIDSeq++
		c2, _, hd := doHTTP("POST", prefix+"/chargingdata", c.body(supi, chargingIDSeq, 3), nil)
		if c2 == 201 {
			hdLoc = refOf(hd.Get("Location"))
			acctSet(supi, 1, 100000, "2")
			norm := C11Case{Route: "update", Mcc: "208", Mnc: "93", Q: "ONLINE_CHARGING"}
			for _, verb := range []string{"update", "release"} {
				_ = verifapi.LoggedErrors()
				uc, _, _ := doHTTP("POST", prefix+"/chargingdata/"+url.PathEscape(hdLoc)+"/"+verb, norm.body(supi, chargingIDSeq, 4), nil)
				var ps []string
				for _, m := range verifapi.LoggedErrors() {
					if strings.Contains(m, "panic") {
						ps = append(ps, m)
					}
				}
				if uc >= 500 || len(ps) > 0 {
					msg := ""
					if len(ps) > 0 {
						msg = ps[0]
					}
					return v.Failf(sigOf5xx("lifecycle-"+verb, c, ps), "%s of the session created with SUPI %q answered %d\n%.2500s", verb, supi, uc, msg)
				}
			}
		}
	}
	// the subscriber must not be left blocked: structural probe first, then a normal request
	for _, s := range []string{valid, supi} {
		if verifapi.Locked(s) {
			return v.Failf("subscriber-wedged/"+c.Route, "after %s %s (answered %d) the lock of subscriber %s is still held although no request is in flight\nbody sent: %.600s", method, path, code, s, c.body(supi, cid, 2))
		}
	}
	follow := C11Case{Route: "create", Mcc: "208", Mnc: "93", Q: "ONLINE_CHARGING"}
	fdone := make(chan int, 1)
	go func() {
		chargingIDSeq++
		fc, _, _ := doHTTP("POST", prefix+"/chargingdata", follow.body(valid, chargingIDSeq, 9), nil)
		fdone <- fc
	}()
	select {
	case fc := <-fdone:
		if fc != 201 {
			return v.Failf("follow-up-rejected/"+c.Route, "after %s %s (answered %d) a normal create for the same subscriber answered %d", method, path, code, fc)
		}
	case <-time.After(40 * time.Second):
		return v.Failf("follow-up-hangs/"+c.Route, "after %s %s (answered %d) a normal create for the same subscriber did not return within 40 s", method, path, code)
	}
	return v
}

func TestC11Robustness(t *testing.T) { h.Run(t, "C11", "requests", genC11, judgeC11) }

var _ = fmt.Sprint
var _ = sort.Strings

// Volume: the well-formed requests of a history in which counts cross thresholds (hundreds of sessions open at once
// for one subscriber, more than 65536 requests served by the process): none panics, none is answered 5xx, none blocks.
func judgeC11Volume(hst Hist) *h.Verdict {
	v := &h.Verdict{}
	w := NewWorld(hst)
	for step, op := range hst.Ops {
		res := w.Exec(op)
		if res.Skipped {
			continue
		}
		if timedOut(res) {
			v.Skipped = true
			return v
		}
		if len(res.Panics) > 0 {
			return v.Failf("handler-panic/"+op.K+"/"+h.PanicFrame(res.Panics[0]), "step %d: handler panicked: %.2000s", step, res.Panics[0])
		}
		if res.Status == statusHung {
			return v.Failf("request-hangs/volume/"+op.K, "step %d of %d (%s, subscriber %d): %s", step, len(hst.Ops), op.K, op.S, res.Body)
		}
		if res.Status >= 500 {
			return v.Failf("5xx/volume/"+op.K, "step %d of %d: well-formed %s answered %d %.300s", step, len(hst.Ops), op.K, res.Status, res.Body)
		}
	}
	return v
}

func TestC11Volume(t *testing.T) {
	h.Run(t, "C11", "volume", func(t *rapid.T) Hist { return genVolumeHist(t, true) }, volumeOf(judgeC11Volume, true))
}

func TestC11Outage(t *testing.T) {
	h.Run(t, "C11", "outage", func(t *rapid.T) Hist { return genOutageHist(t, true, false) }, outageOf(judgeOutage(true)))
}
