package stack

import (
	"encoding/json"
	"fmt"
	"os"
	"path/filepath"
	"regexp"
	"runtime"
	"sort"
	"strings"
	"sync"
	"testing"
	"time"

	"pgregory.net/rapid"

	"github.com/free5gc/chf/verifapi"
	"github.com/free5gc/openapi/models"
	"verifharness/h"
)

// C09Case: a sequential prefix followed by a burst of concurrent requests.
type C09Case struct {
	Kind  string `json:"kind"`  // same-sub | same-new-supi | different-subs | mixed
	N     int    `json:"n"`     // requests in the burst (2..16)
	Procs int    `json:"procs"` // GOMAXPROCS
	Reps  int    `json:"reps"`
	Bal   int64  `json:"bal"`
	Cost  int    `json:"cost"`
	Req   int32  `json:"req"`
	Used  int32  `json:"used"`
	Open  int    `json:"open,omitempty"` // crowded-sub: sessions the subscriber has open before the burst
}

type burstReq struct {
	method, path string
	body         []byte
	kind         string // update | release | recharge | create
	supi         string
	sessRef      string
	lsn          int32
	evID         int32 // charging id of a one-time event
	usedOnline   int64
	code         int
	loc          string
}

var raceSeen int64

// newRaceReports returns the CHF-related part of race reports written since the last call.
func newRaceReports() []string {
	gr := os.Getenv("GORACE")
	i := strings.Index(gr, "log_path=")
	if i < 0 {
		return nil
	}
	base := strings.Fields(gr[i+len("log_path="):])[0]
	files, _ := filepath.Glob(base + ".*")
	var out []string
	var total int64
	for _, f := range files {
		b, err := os.ReadFile(f)
		if err != nil {
			continue
		}
		total += int64(len(b))
		for _, rep := range strings.Split(string(b), "==================") {
			if strings.Contains(rep, "DATA RACE") && strings.Contains(rep, "github.com/free5gc/chf/") {
				out = append(out, rep)
			}
		}
	}
	if total == raceSeen {
		return nil
	}
	raceSeen = total
	return out
}

var frameRe = regexp.MustCompile(`github\.com/free5gc/chf/([A-Za-z0-9_/\.\(\)\*]+)\(`)

func raceSig(rep string) string {
	// the two top-most CHF frames of the two accesses
	var fs []string
	seen := map[string]bool{}
	for _, block := range strings.Split(rep, "\n\n") {
		if !(strings.Contains(block, "Read at") || strings.Contains(block, "Write at") || strings.Contains(block, "Previous read") || strings.Contains(block, "Previous write")) {
			continue
		}
		if m := frameRe.FindStringSubmatch(block); m != nil && !strings.Contains(m[1], "verifapi") {
			f := strings.TrimSuffix(m[1], ".func1")
			if !seen[f] {
				seen[f] = true
				fs = append(fs, f)
			}
		}
	}
	sort.Strings(fs)
	return strings.Join(fs, "+")
}

func mkUpdateBody(supi string, chargingID int32, rg int32, req, used int32, lsn int32, trigName string) []byte {
	now := time.Now()
	r := models.ChfConvergedChargingChargingDataRequest{SubscriberIdentifier: supi, ChargingId: chargingID,
		NfConsumerIdentification: &models.ChfConvergedChargingNfIdentification{NFName: "smf", NodeFunctionality: "SMF"},
		InvocationTimeStamp:      &now, InvocationSequenceNumber: lsn, NotifyUri: notifyURIOf(supi),
		MultipleUnitUsage: []models.ChfConvergedChargingMultipleUnitUsage{{RatingGroup: rg, RequestedUnit: &models.RequestedUnit{TotalVolume: req},
			UsedUnitContainer: []models.ChfConvergedChargingUsedUnitContainer{{QuotaManagementIndicator: models.QuotaManagementIndicator_ONLINE_CHARGING, TotalVolume: used, UplinkVolume: 1, LocalSequenceNumber: lsn}}}},
		Triggers: trig(trigName)}
	b, _ := json.Marshal(r)
	return b
}

func mkCreateBody(supi string, chargingID int32) []byte {
	return mkCreateBodyNamed(supi, chargingID, "smf")
}

// noNotifyUri: the requests of the current burst leave the optional notifyUri out
var noNotifyUri bool

func notifyURIOf(supi string) string {
	if noNotifyUri {
		return ""
	}
	return env.Sink.URL + "/notify/" + supi
}

func mkCreateBodyNamed(supi string, chargingID int32, name string) []byte {
	now := time.Now()
	uri := env.Sink.URL + "/notify/" + supi
	if noNotifyUri {
		uri = ""
	}
	r := models.ChfConvergedChargingChargingDataRequest{SubscriberIdentifier: supi, ChargingId: chargingID,
		NfConsumerIdentification: &models.ChfConvergedChargingNfIdentification{NFName: name, NodeFunctionality: "SMF"},
		InvocationTimeStamp:      &now, InvocationSequenceNumber: 1, NotifyUri: uri,
		MultipleUnitUsage: []models.ChfConvergedChargingMultipleUnitUsage{{RatingGroup: 1, RequestedUnit: &models.RequestedUnit{TotalVolume: 10}}}}
	b, _ := json.Marshal(r)
	return b
}

// mkEventBody is a one-time-event create (immediate event charging) reporting one container.
func mkEventBody(supi string, chargingID int32, lsn int32) []byte {
	now := time.Now()
	r := models.ChfConvergedChargingChargingDataRequest{SubscriberIdentifier: supi, ChargingId: chargingID,
		NfConsumerIdentification: &models.ChfConvergedChargingNfIdentification{NFName: "smf", NodeFunctionality: "SMF"},
		InvocationTimeStamp:      &now, InvocationSequenceNumber: 1, NotifyUri: notifyURIOf(supi), OneTimeEvent: true, OneTimeEventType: models.OneTimeEventType_IEC,
		MultipleUnitUsage: []models.ChfConvergedChargingMultipleUnitUsage{{RatingGroup: 2, RequestedUnit: &models.RequestedUnit{TotalVolume: 1},
			UsedUnitContainer: []models.ChfConvergedChargingUsedUnitContainer{{QuotaManagementIndicator: models.QuotaManagementIndicator_OFFLINE_CHARGING, TotalVolume: 1, UplinkVolume: 1, LocalSequenceNumber: lsn}}}}}
	b, _ := json.Marshal(r)
	return b
}

func lsnsOfSession(supi string, chargingID int32) map[int64]int {
	out := map[int64]int{}
	list, _, _ := verifapi.Records(supi)
	for _, r := range list {
		if r.ChargingFunctionRecord == nil || r.ChargingFunctionRecord.ChargingID == nil || r.ChargingFunctionRecord.ChargingID.Value != int64(chargingID) {
			continue
		}
		for _, f := range flatten(r) {
			out[f.LSN]++
		}
	}
	return out
}

func oneBurst(c C09Case, rep int) (sig, msg string, nt bool) {
	type session struct {
		supi string
		id   int32
		ref  string
	}
	var subs []string
	var sessions []session
	nSubs := 1
	if c.Kind == "different-subs" || c.Kind == "mixed" {
		nSubs = 3
	}
	if c.Kind == "releases-across-subs" {
		// one subscriber per request: releases of some subscribers' sessions in flight together with
		// partial-record updates of others (global, not per-subscriber, state is what they share)
		nSubs = c.N
	}
	credited := map[string]int64{}
	usage := map[string]int64{}
	lsn := int32(1000 * (rep + 1))
	// every other repetition of the workloads with recharges: the consumers registered no notification URI
	noNotifyUri = (c.Kind == "same-sub" || c.Kind == "mixed") && (rep/len(allKinds))%2 == 1
	defer func() { noNotifyUri = false }()
	newSession := func(supi string) (session, bool) {
		chargingIDSeq++
		code, _, hd := doHTTP("POST", prefix+"/chargingdata", mkCreateBody(supi, chargingIDSeq), nil)
		if code != 201 {
			return session{}, false
		}
		return session{supi, chargingIDSeq, refOf(hd.Get("Location"))}, true
	}
	if c.Kind == "prefix-supi-creates" {
		// two subscribers whose SUPIs are prefix-related, with consumer names that compensate: SUPI+name is the same string
		a := env.NewSupi()
		b := a + "1"
		env.Track(b)
		for _, x := range []string{a, b} {
			acctSet(x, 1, c.Bal, fmt.Sprint(c.Cost))
			credited[x] = c.Bal
		}
		subs = append(subs, a, b)
	}
	if c.Kind != "same-new-supi" && c.Kind != "prefix-supi-creates" {
		for i := 0; i < nSubs; i++ {
			supi := env.NewSupi()
			acctSet(supi, 1, c.Bal, fmt.Sprint(c.Cost))
			credited[supi] = c.Bal
			subs = append(subs, supi)
			s, ok := newSession(supi)
			if !ok {
				return "valid-request-rejected/create", "prefix create rejected", false
			}
			sessions = append(sessions, s)
			// first grant
			lsn++
			code, _, _ := doHTTP("POST", prefix+"/chargingdata/"+s.ref+"/update", mkUpdateBody(supi, s.id, 1, c.Req, 0, lsn, ""), nil)
			if code != 200 {
				return "valid-request-rejected/update", fmt.Sprintf("prefix update answered %d", code), false
			}
			if c.Kind == "releases-across-subs" {
				// a partial record is opened before the burst
				lsn++
				code, _, _ := doHTTP("POST", prefix+"/chargingdata/"+s.ref+"/update", mkUpdateBody(supi, s.id, 1, c.Req, c.Used, lsn, "VOLUME_LIMIT"), nil)
				if code != 200 {
					return "valid-request-rejected/update", fmt.Sprintf("prefix update answered %d", code), false
				}
				usage[supi] += int64(c.Used)
			}
		}
	}
	if c.Kind == "crowded-sub" {
		// the subscriber already has hundreds of sessions open (and as many records)
		for i := 0; i < c.Open; i++ {
			s, ok := newSession(subs[0])
			if !ok {
				return "valid-request-rejected/create", fmt.Sprintf("prefix: create number %d for one subscriber (all earlier sessions still open) rejected or not answered", i+2), false
			}
			sessions = append(sessions, s)
		}
	}
	// the burst
	var reqs []*burstReq
	for i := 0; i < c.N; i++ {
		lsn++
		switch c.Kind {
		case "prefix-supi-creates":
			chargingIDSeq++
			if i%2 == 0 {
				reqs = append(reqs, &burstReq{method: "POST", path: prefix + "/chargingdata", body: mkCreateBodyNamed(subs[0], chargingIDSeq, "1x"), kind: "create", supi: subs[0], lsn: chargingIDSeq})
			} else {
				reqs = append(reqs, &burstReq{method: "POST", path: prefix + "/chargingdata", body: mkCreateBodyNamed(subs[1], chargingIDSeq, "x"), kind: "create", supi: subs[1], lsn: chargingIDSeq})
			}
		case "same-new-supi":
			if i == 0 {
				supi := env.NewSupi()
				acctSet(supi, 1, c.Bal, fmt.Sprint(c.Cost))
				credited[supi] = c.Bal
				subs = append(subs, supi)
			}
			chargingIDSeq++
			reqs = append(reqs, &burstReq{method: "POST", path: prefix + "/chargingdata", body: mkCreateBody(subs[0], chargingIDSeq), kind: "create", supi: subs[0], lsn: chargingIDSeq})
		default:
			s := sessions[i%len(sessions)]
			k := "update"
			if c.Kind == "same-session-releases" {
				// several releases (retransmissions) and updates of one session in flight together
				k = "release"
				if i%3 == 2 {
					k = "update"
				}
			}
			if c.Kind == "releases-across-subs" && i%2 == 0 {
				k = "release"
			}
			if c.Kind == "mixed" || c.Kind == "same-sub" {
				switch i % 5 {
				case 2:
					if i%10 == 2 {
						k = "event" // a one-time event of the same subscriber in flight beside its session requests
					}
				case 3:
					k = "recharge"
				case 4:
					if c.Kind == "mixed" {
						k = "create"
					}
				}
			}
			switch k {
			case "update":
				tr := ""
				if i%2 == 1 {
					tr = []string{"MGMT", "VOLUME_LIMIT", "MAX_CHANGES"}[i%3] // partial record closures in the middle of the burst, on several subscribers
				}
				reqs = append(reqs, &burstReq{method: "POST", path: prefix + "/chargingdata/" + s.ref + "/update", body: mkUpdateBody(s.supi, s.id, 1, c.Req, c.Used, lsn, tr), kind: "update", supi: s.supi, sessRef: s.ref, lsn: lsn, usedOnline: int64(c.Used)})
			case "release":
				reqs = append(reqs, &burstReq{method: "POST", path: prefix + "/chargingdata/" + s.ref + "/release", body: mkUpdateBody(s.supi, s.id, 1, 0, c.Used, lsn, "FINAL"), kind: "release", supi: s.supi, sessRef: s.ref, lsn: lsn, usedOnline: int64(c.Used)})
			case "recharge":
				reqs = append(reqs, &burstReq{method: "PUT", path: fmt.Sprintf("%s/recharging/%s_1", prefix, s.supi), kind: "recharge", supi: s.supi})
			case "create":
				chargingIDSeq++
				reqs = append(reqs, &burstReq{method: "POST", path: prefix + "/chargingdata", body: mkCreateBody(s.supi, chargingIDSeq), kind: "create", supi: s.supi, lsn: chargingIDSeq})
			case "event":
				chargingIDSeq++
				reqs = append(reqs, &burstReq{method: "POST", path: prefix + "/chargingdata", body: mkEventBody(s.supi, chargingIDSeq, lsn), kind: "event", supi: s.supi, lsn: lsn, evID: chargingIDSeq})
			}
		}
	}
	sameTarget := 0
	cnt := map[string]int{}
	for _, r := range reqs {
		cnt[r.supi]++
		if cnt[r.supi] >= 2 {
			sameTarget++
		}
	}
	nt = sameTarget > 0
	start := make(chan struct{})
	var wg sync.WaitGroup
	for _, r := range reqs {
		wg.Add(1)
		go func(r *burstReq) {
			defer wg.Done()
			<-start
			code, _, hd := doHTTP(r.method, r.path, r.body, nil)
			r.code, r.loc = code, hd.Get("Location")
		}(r)
	}
	done := make(chan struct{})
	go func() { wg.Wait(); close(done) }()
	close(start)
	select {
	case <-done:
	case <-time.After(time.Duration(60+6*4*len(reqs)) * time.Second):
		buf := make([]byte, 1<<20)
		n := runtime.Stack(buf, true)
		return "deadlock/" + c.Kind, fmt.Sprintf("the %d concurrent requests of the burst (%s) did not all return; goroutines:\n%.6000s", len(reqs), c.Kind, buf[:n]), nt
	}
	for _, e := range verifapi.LoggedErrors() {
		if strings.Contains(e, "timeout: no rate answer") {
			return "SKIP", "", nt
		}
		if strings.Contains(e, "panic") {
			return "handler-panic/" + h.PanicFrame(e), fmt.Sprintf("a handler panicked during the burst (%s): %.3000s", c.Kind, e), nt
		}
	}
	// quiescent-state oracles
	released := map[string]int{}
	for _, r := range reqs {
		switch r.kind {
		case "update":
			if c.Kind == "same-session-releases" {
				// an update ordered after the release is rejected; one ordered before it is accepted
				if r.code != 200 && (r.code < 400 || r.code >= 500) {
					return "update-status-beside-release", fmt.Sprintf("update concurrent with releases of its session answered %d, want 200 or a 4xx rejection", r.code), nt
				}
				if r.code == 200 {
					usage[r.supi] += r.usedOnline
				}
				continue
			}
			if r.code != 200 {
				return "valid-request-rejected/update", fmt.Sprintf("concurrent update answered %d", r.code), nt
			}
			usage[r.supi] += r.usedOnline
		case "release":
			if r.code == 204 {
				released[r.supi+"|"+r.sessRef]++
				usage[r.supi] += r.usedOnline
			} else if r.code < 400 || r.code >= 500 {
				return "release-status-concurrent", fmt.Sprintf("one of several concurrent releases of a session answered %d, want 204 once and a 4xx rejection otherwise", r.code), nt
			}
		case "create":
			if r.code != 201 {
				return "valid-request-rejected/create", fmt.Sprintf("concurrent create answered %d", r.code), nt
			}
			sessions = append(sessions, session{r.supi, r.lsn, refOf(r.loc)})
		case "recharge":
			if r.code != 204 {
				return "valid-request-rejected/recharge", fmt.Sprintf("concurrent recharge answered %d", r.code), nt
			}
		case "event":
			if r.code != 201 {
				return "valid-request-rejected/event", fmt.Sprintf("concurrent one-time event answered %d", r.code), nt
			}
			// its record, with its container, is among the subscriber's records exactly once
			if got := lsnsOfSession(r.supi, r.evID); got[int64(r.lsn)] != 1 {
				return "event-record-count/" + c.Kind, fmt.Sprintf("the container (lsn %d) of an acknowledged one-time event is recorded %d times in the subscriber's records, want once", r.lsn, got[int64(r.lsn)]), nt
			}
		}
	}
	for _, supi := range subs {
		snap := snapshot(supi)
		if snap.Locked {
			return "subscriber-locked", "a subscriber is still locked after the burst returned", nt
		}
		q, err := acctQuota(supi, 1)
		if err != nil {
			return "quota-unreadable", err.Error(), nt
		}
		want := credited[supi] - int64(c.Cost)*usage[supi]
		if q+snap.Reserved[1] != want {
			return "credit-not-conserved/" + c.Kind, fmt.Sprintf("after the burst (%s, %d requests): balance %d + reservation %d = %d, credited %d - cost %d x usage %d = %d", c.Kind, len(reqs), q, snap.Reserved[1], q+snap.Reserved[1], credited[supi], c.Cost, usage[supi], want), nt
		}
	}
	if c.Kind == "same-session-releases" {
		for k, n := range released {
			if n != 1 {
				return "session-released-more-than-once", fmt.Sprintf("%d of the concurrent releases of session %s were acknowledged with 204 (a serial order acknowledges exactly one)", n, k), nt
			}
		}
		if len(released) == 0 {
			return "session-released-more-than-once", "none of the concurrent releases was acknowledged", nt
		}
	}
	// every container of an accepted request exactly once in its session's record(s), none of a rejected one
	for _, s := range sessions {
		got := lsnsOfSession(s.supi, s.id)
		for _, r := range reqs {
			if (r.kind == "update" || r.kind == "release") && r.sessRef == s.ref && r.supi == s.supi {
				want := 0
				if r.code >= 200 && r.code < 300 {
					want = 1
				}
				if got[int64(r.lsn)] != want {
					return "container-count/" + c.Kind, fmt.Sprintf("container lsn %d of a %s answered %d for session %s is recorded %d times, want %d", r.lsn, r.kind, r.code, s.ref, got[int64(r.lsn)], want), nt
				}
			}
		}
	}
	// references unique, and every acknowledged session can still be updated and released
	refs := map[string]string{}
	for _, s := range sessions {
		if other, dup := refs[s.ref]; dup {
			cls := "concurrent"
			if other != s.supi {
				cls = "concurrent-across-subscribers"
			}
			return "duplicate-reference/" + cls, fmt.Sprintf("two acknowledged creates (subscribers %s and %s) returned the same reference %s", other, s.supi, s.ref), nt
		}
		refs[s.ref] = s.supi
	}
	for i, s := range sessions {
		if released[s.supi+"|"+s.ref] > 0 {
			continue
		}
		if len(sessions) > 60 && i > 20 && i < len(sessions)-20 && i%16 != 0 {
			continue // (hundreds of sessions: the first and last twenty and every 16th)
		}
		lsn++
		code, _, _ := doHTTP("POST", prefix+"/chargingdata/"+s.ref+"/update", mkUpdateBody(s.supi, s.id, 1, 0, 0, lsn, ""), nil)
		if code != 200 {
			return "acknowledged-session-lost/" + c.Kind, fmt.Sprintf("session %s (create acknowledged with 201) answers %d to an update after the burst", s.ref, code), nt
		}
		if got := lsnsOfSession(s.supi, s.id); got[int64(lsn)] != 1 {
			return "acknowledged-session-lost/" + c.Kind, fmt.Sprintf("the update addressed to session %s after the burst is not in that session's record", s.ref), nt
		}
		lsn++
		code, _, _ = doHTTP("POST", prefix+"/chargingdata/"+s.ref+"/release", mkUpdateBody(s.supi, s.id, 1, 0, 0, lsn, "FINAL"), nil)
		if code != 204 {
			return "acknowledged-session-lost/" + c.Kind, fmt.Sprintf("session %s answers %d to a release after the burst", s.ref, code), nt
		}
	}
	return "", "", nt
}

func judgeC09(c C09Case) *h.Verdict {
	v := &h.Verdict{}
	old := runtime.GOMAXPROCS(c.Procs)
	defer runtime.GOMAXPROCS(old)
	v.Label(fmt.Sprintf("procs:%d", c.Procs))
	_ = verifapi.LoggedErrors()
	kinds := []string{c.Kind}
	if c.Kind == "all" {
		kinds = allKinds
	}
	for rep := 0; rep < c.Reps*len(kinds); rep++ {
		c := c
		c.Kind = kinds[rep%len(kinds)]
		v.Label("kind:" + c.Kind)
		sig, msg, nt := oneBurst(c, rep)
		if nt {
			v.NonTrivial = true
		}
		if sig == "SKIP" {
			v.Skipped = true
			return v
		}
		if sig != "" {
			return v.Failf(sig, "repetition %d: %s", rep, msg)
		}
		if reps := newRaceReports(); len(reps) > 0 {
			return v.Failf("data-race/"+raceSig(reps[0]), "the race detector reported a data race in CHF code during a burst of %d %s requests (GOMAXPROCS %d, repetition %d):\n%.5000s", c.N, c.Kind, c.Procs, rep, reps[0])
		}
	}
	return v
}

var allKinds = []string{"same-sub", "same-new-supi", "different-subs", "mixed", "same-session-releases", "prefix-supi-creates", "releases-across-subs"}

func genC09(t *rapid.T) C09Case {
	// every case runs every workload kind ("all"); a single kind can be named in a replay file
	return C09Case{Kind: "all",
		N: rapid.SampledFrom([]int{2, 3, 4, 8, 16}).Draw(t, "n"), Procs: rapid.SampledFrom([]int{1, 2, 4, 16}).Draw(t, "procs"),
		Reps: h.Scale(2, 8), Bal: rapid.SampledFrom([]int64{0, 500, 100000, 1 << 40}).Draw(t, "bal"), Cost: rapid.SampledFrom([]int{1, 3}).Draw(t, "cost"),
		Req: int32(rapid.SampledFrom([]int{1, 100, 1000}).Draw(t, "req")), Used: int32(rapid.SampledFrom([]int{0, 1, 50, 100}).Draw(t, "used"))}
}

func TestC09Concurrent(t *testing.T) { h.Run(t, "C09", "bursts", genC09, judgeC09) }

// Crowded: the bursts hit a subscriber that already has hundreds of sessions open.
func TestC09Crowded(t *testing.T) {
	h.Run(t, "C09", "crowded", func(t *rapid.T) C09Case {
		return C09Case{Kind: "crowded-sub", Open: rapid.IntRange(260, 340).Draw(t, "open"),
			N: rapid.SampledFrom([]int{8, 16}).Draw(t, "n"), Procs: rapid.SampledFrom([]int{2, 4, 16}).Draw(t, "procs"),
			Reps: 1, Bal: 1 << 40, Cost: rapid.SampledFrom([]int{1, 3}).Draw(t, "cost"),
			Req: int32(rapid.SampledFrom([]int{1, 100}).Draw(t, "req")), Used: int32(rapid.SampledFrom([]int{1, 50}).Draw(t, "used"))}
	}, func(c C09Case) *h.Verdict {
		v := judgeC09(c)
		v.Label("sessions-open-at-once>256")
		return v
	})
}
