package stack

import (
	"fmt"
	"os"
	"testing"

	"pgregory.net/rapid"

	"verifharness/h"
)

// C06: compliant consumer (usage <= last grant): no negative balance; when the
// money still available buys less than requested, grant <= what it buys and a
// final-unit indication is carried.
func judgeC06(hst Hist) *h.Verdict {
	v := &h.Verdict{}
	w := NewWorld(hst)
	overGranted := map[[2]int]bool{} // (sub, rg) for which a known over-grant was tolerated
	type key = [2]int
	for step, op := range hst.Ops {
		st := w.subs[op.S%len(w.subs)]
		si := op.S % len(w.subs)
		pre := snapshot(st.supi)
		preBal := map[int32]int64{}
		for rg := int32(1); rg <= 3; rg++ {
			preBal[rg], _ = acctQuota(st.supi, rg)
		}
		var lv []*sess
		if op.K == "update" || op.K == "release" {
			lv = st.live()
		}
		var preGrant map[int32]int32
		if len(lv) > 0 {
			preGrant = map[int32]int32{}
			for k, g := range lv[op.Sess%len(lv)].lastGrant {
				preGrant[k] = g
			}
		}
		res := w.Exec(op)
		if res.Skipped {
			continue
		}
		var newOver []key
		if timedOut(res) {
			v.Skipped = true
			return v
		}
		if len(res.Panics) > 0 {
			return v.Failf("handler-panic/"+op.K+"/"+h.PanicFrame(res.Panics[0]), "step %d: handler panicked: %.2000s", step, res.Panics[0])
		}
		if res.Status >= 400 {
			return v.Failf(rejSig(res)+op.K, "step %d: well-formed %s answered %d %.200s", step, op.K, res.Status, res.Body)
		}
		if op.K == "recharge" {
			overGranted[key{si, int(op.RG)}] = false
		}
		// (1) grants limited by the money
		if op.K == "update" && res.Resp != nil {
			for _, u := range op.UUs {
				var used int64
				online := false
				for _, c := range res.Req.MultipleUnitUsage {
					if c.RatingGroup != u.RG {
						continue
					}
					for _, cc := range c.UsedUnitContainer {
						if cc.QuotaManagementIndicator == "ONLINE_CHARGING" {
							online = true
							used += int64(cc.TotalVolume)
						}
					}
				}
				if !online {
					continue
				}
				cost := st.cost[u.RG]
				if used > 0 && preGrant != nil && used < int64(preGrant[u.RG]) {
					v.NT("partially-consumed-reservation")
				}
				// the money still available is what was credited minus the price of all usage reported so far
				// (this request's included): a reference value that does not depend on the CHF's own book-keeping
				// of the reservation.  On a tree that conserves credit (C01) it equals balance + reservation - used x cost.
				avail := st.credited[u.RG] - cost*st.usage[u.RG]
				unconsumed := avail - preBal[u.RG] // the part of it that is held as a reservation
				if avail < 0 {
					avail = 0
				}
				afford := avail / cost
				var mi *struct {
					granted int64
					fui     bool
				}
				for _, m := range res.Resp.MultipleUnitInformation {
					if m.RatingGroup == u.RG {
						x := struct {
							granted int64
							fui     bool
						}{0, fui(m)}
						if m.GrantedUnit != nil {
							x.granted = int64(m.GrantedUnit.TotalVolume)
						}
						mi = &x
					}
				}
				if mi == nil {
					continue
				}
				if os.Getenv("VERIF_DEBUG") != "" {
					fmt.Fprintf(os.Stderr, "DEBUG step %d rg %d: credited %d usage %d avail %d preBal %d afford %d req %d granted %d fui %v reqnum %v\n", step, u.RG, st.credited[u.RG], st.usage[u.RG], avail, preBal[u.RG], afford, u.Req, mi.granted, mi.fui, pre.ReqNum)
				}
				if afford < int64(u.Req) {
					if avail == 0 {
						v.NT("nothing-left")
					} else {
						v.NT("money-buys-less-than-requested")
					}
					if mi.granted > afford {
						sig := "over-grant"
						if rec.Known(sig) {
							newOver = append(newOver, key{si, int(u.RG)}) // takes effect from the next step on
						}
						v.Failf(sig, "step %d rg %d: balance %d + unconsumed reservation %d (the CHF holds %d, %d x cost %d used now) buys %d units, requested %d, granted %d (final-unit indication: %v)",
							step, u.RG, preBal[u.RG], unconsumed, pre.Reserved[u.RG], used, cost, afford, u.Req, mi.granted, mi.fui)
						if !rec.Known(sig) {
							return v
						}
						// the account server was consulted (reservation exhausted) and could not grant in full:
						// the indication is owed whatever volume was granted
						if !mi.fui && pre.RatingType[u.RG] != 2 && op.Trig != "FINAL" && unconsumed <= 0 {
							v.Sig, v.Msg = "", ""
							return v.Failf("no-final-unit-indication", "step %d rg %d: reservation exhausted, money buys %d < requested %d, granted %d, but no final-unit indication", step, u.RG, afford, u.Req, mi.granted)
						}
					} else if !mi.fui && pre.RatingType[u.RG] != 2 && op.Trig != "FINAL" {
						// (a FINAL report asks for no further quota: debit mode applies from that very request)
						// the indication is demanded on the response in which the limitation first applies
						return v.Failf("no-final-unit-indication", "step %d rg %d: money buys %d < requested %d, granted %d, but no final-unit indication", step, u.RG, afford, u.Req, mi.granted)
					}
				}
			}
		}
		// (2) no negative balance
		for sj, s2 := range w.subs {
			for rg := int32(1); rg <= 3; rg++ {
				q, err := acctQuota(s2.supi, rg)
				if err != nil {
					return v.Failf("quota-unreadable", "step %d: %v", step, err)
				}
				if q < 0 {
					if overGranted[key{sj, int(rg)}] {
						v.Label("negative-balance-after-tolerated-over-grant")
						return v // nothing after this can be judged for this history
					}
					return v.Failf("negative-balance", "step %d (%s): balance of subscriber %d rg %d is %d", step, op.K, sj, rg, q)
				}
			}
		}
		for _, k := range newOver {
			overGranted[k] = true
		}
	}
	return v
}

var rec *h.Recorder

func genC06(t *rapid.T) Hist {
	return genHist(t, genOpts{maxSubs: 2, maxSess: 1, minOps: 4, maxOps: h.Scale(20, 36), recharge: true, compliant: true, distinctRG: true, lowBalance: true, offline: true, bigCost: true, rgNums: true})
}

func TestC06NoOverdraft(t *testing.T) {
	rec = h.NewRecorder("C06", "histories")
	h.RunWith(t, rec, genC06, judgeC06)
}

func TestC06Volume(t *testing.T) {
	rec = h.NewRecorder("C06", "volume")
	h.RunWith(t, rec, func(t *rapid.T) Hist { return genVolumeHist(t, false) }, volumeOf(judgeC06, false))
}

// Long: a compliant consumer through hundreds of requests on one session, the money running out and being topped up
// along the way, the request counters passing 512, 65536 and 2^32.
func genC06Long(t *rapid.T) Hist {
	var hst Hist
	cost := rapid.SampledFrom([]int{1, 3, 7}).Draw(t, "cost")
	// enough money for the first half of the history: the request counter passes its thresholds while the account is
	// still being debited, the money runs out afterwards (once it has, the known over-grant ends what can be judged)
	money := int64(cost) * int64(rapid.IntRange(6000, 9000).Draw(t, "money"))
	hst.Subs = []Sub{{Acct: [3]Acct{{cost, money}, {cost, 1 << 40}, {cost, 1 << 40}}}} // (only the first rating group runs out of money)
	hst.Ops = append(hst.Ops, Op{K: "create", S: 0, Name: "smf", UUs: []UU{{RG: 1, Req: 100}}})
	n := h.Scale(320, 3000)
	for i := 0; i < n; i++ {
		rg := int32(1 + i%3)
		if i%4 != 3 {
			rg = 1
		}
		op := Op{K: "update", S: 0, UUs: []UU{{RG: rg, Req: int32(50 + i%200), Conts: []Cont{{Q: "online", Pm: (i * 37) % 1001}}}}}
		switch {
		case i == 12:
			op = Op{K: "aged", S: 0, RG: 1, Amt: 500}
		case i == 40:
			op = Op{K: "aged", S: 0, RG: 1, Amt: 65530}
		case i == 70:
			op = Op{K: "aged", S: 0, RG: 1, Amt: 1<<32 - 4}
		}
		hst.Ops = append(hst.Ops, op)
	}
	return hst
}

func TestC06Long(t *testing.T) {
	rec = h.NewRecorder("C06", "long")
	h.RunWith(t, rec, genC06Long, func(hst Hist) *h.Verdict {
		v := judgeC06(hst)
		v.Label("history>=300-requests")
		v.Label("request-counter-passes-65536")
		v.NonTrivial = true
		return v
	})
}
