package fault

import (
	"encoding/json"
	"fmt"
	"reflect"
	"testing"

	"github.com/fiorix/go-diameter/diam/datatype"
	"pgregory.net/rapid"

	cdt "github.com/free5gc/chf/ccs_diameter/datatype"
	"github.com/free5gc/chf/verifapi"
	"verifharness/diamgen"
	"verifharness/h"
)

// C17 through the CHF's own Diameter clients: a generated request is sent with internal/rating resp.
// internal/abmf (the functions the processor calls), the harness peer records what it received and answers with a
// generated answer; what the peer received must be what was passed in, and what the client returns must be what the
// peer sent - field by field, over the full range of each AVP type.
type clientCase struct {
	Kind string          `json:"kind"` // SUR | CCR
	Req  json.RawMessage `json:"req"`
	Ans  json.RawMessage `json:"ans"`
	T    int64           `json:"t"`
	N    int             `json:"n,omitempty"` // the request is sent this many times for one subscriber (0: once)
	// Ans2: what the peer answers from the second request on that it receives in this case (a client that asks again -
	// because the first answer carried a transient failure result code, say - gets a different answer)
	Ans2 json.RawMessage `json:"ans2,omitempty"`
	RC   uint32          `json:"rc,omitempty"` // with Ans2: the Result-Code of the first answer
}

func genClient(t *rapid.T) clientCase {
	c := clientCase{Kind: rapid.SampledFrom([]string{"SUR", "CCR"}).Draw(t, "kind"), T: rapid.SampledFrom([]int64{1, 946684800, 1790000000, 2085978495}).Draw(t, "time")}
	reqT, ansT := diamgen.MsgTypes["SUR"], diamgen.MsgTypes["SUA"]
	if c.Kind == "CCR" {
		reqT, ansT = diamgen.MsgTypes["CCR"], diamgen.MsgTypes["CCA"]
	}
	var st diamgen.FillStats
	rq, an := reflect.New(reqT), reflect.New(ansT)
	diamgen.FillDiam(t, rq.Elem(), 0, &st)
	diamgen.FillDiam(t, an.Elem(), 0, &st)
	c.Req, _ = json.Marshal(rq.Interface())
	c.Ans, _ = json.Marshal(an.Interface())
	if rapid.IntRange(0, 2).Draw(t, "secondAnswer") == 0 {
		an2 := reflect.New(ansT)
		diamgen.FillDiam(t, an2.Elem(), 0, &st)
		c.Ans2, _ = json.Marshal(an2.Interface())
		c.RC = rapid.SampledFrom([]uint32{3004, 3004, 3002, 4002, 4010, 5012, 2002}).Draw(t, "firstResultCode")
	}
	return c
}

func judgeClient(c clientCase) *h.Verdict {
	supi := env.NewSupi()
	if c.N <= 1 {
		return clientOnce(c, supi)
	}
	// one subscriber's k-th request is carried like its first
	var v *h.Verdict
	for k := 1; k <= c.N; k++ {
		v = clientOnce(c, supi)
		if v.Failed() {
			v.Sig = "client/depends-on-requests-sent-before/" + v.Sig
			v.Msg = fmt.Sprintf("request number %d of one subscriber: %s", k, v.Msg)
			return v
		}
	}
	v.Label("requests-of-one-subscriber>=500")
	v.NonTrivial = true
	return v
}

func clientOnce(c clientCase, supi string) *h.Verdict {
	v := &h.Verdict{}
	v.Label("client:" + c.Kind)
	sub := &cdt.SubscriptionId{SubscriptionIdType: cdt.END_USER_IMSI, SubscriptionIdData: datatype.UTF8String(supi[5:])}
	p := &subPlan{}
	var st diamgen.FillStats
	var sentReq, gotReq, sentAns, gotAns, second reflect.Value
	var err error
	switch c.Kind {
	case "SUR":
		var sur cdt.ServiceUsageRequest
		var sua cdt.ServiceUsageResponse
		if json.Unmarshal(c.Req, &sur) != nil || json.Unmarshal(c.Ans, &sua) != nil {
			return v.Failf("HARNESS-case", "case does not parse")
		}
		diamgen.SetTimes(reflect.ValueOf(&sur).Elem(), c.T)
		diamgen.SetTimes(reflect.ValueOf(&sua).Elem(), c.T)
		sur.SubscriptionId = sub
		p.cannedSUA = &sua
		var sua2 cdt.ServiceUsageResponse
		if len(c.Ans2) > 0 && json.Unmarshal(c.Ans2, &sua2) == nil {
			diamgen.SetTimes(reflect.ValueOf(&sua2).Elem(), c.T)
			if f := reflect.ValueOf(&sua).Elem().FieldByName("ResultCode"); f.IsValid() && f.CanSet() {
				f.SetUint(uint64(c.RC))
			}
			p.cannedSUA2 = &sua2
			second = reflect.ValueOf(sua2)
		}
		plansMu.Lock()
		plans[supi[5:]] = p
		plansMu.Unlock()
		want := sur // the client fills in the destination of the peer it reached
		rsp, e := verifapi.ClientSUR(supi, &sur)
		err = e
		p.mu.Lock()
		got := p.gotSUR
		p.mu.Unlock()
		if got != nil {
			want.DestinationHost, want.DestinationRealm = got.DestinationHost, got.DestinationRealm
			sentReq, gotReq = reflect.ValueOf(want), reflect.ValueOf(*got)
		}
		if rsp != nil {
			sentAns, gotAns = reflect.ValueOf(sua), reflect.ValueOf(*rsp)
		}
	default:
		var ccr cdt.AccountDebitRequest
		var cca cdt.AccountDebitResponse
		if json.Unmarshal(c.Req, &ccr) != nil || json.Unmarshal(c.Ans, &cca) != nil {
			return v.Failf("HARNESS-case", "case does not parse")
		}
		diamgen.SetTimes(reflect.ValueOf(&ccr).Elem(), c.T)
		diamgen.SetTimes(reflect.ValueOf(&cca).Elem(), c.T)
		ccr.SubscriptionId = sub
		p.cannedCCA = &cca
		var cca2 cdt.AccountDebitResponse
		if len(c.Ans2) > 0 && json.Unmarshal(c.Ans2, &cca2) == nil {
			diamgen.SetTimes(reflect.ValueOf(&cca2).Elem(), c.T)
			cca.ResultCode = datatype.Unsigned32(c.RC)
			p.cannedCCA2 = &cca2
			second = reflect.ValueOf(cca2)
		}
		plansMu.Lock()
		plans[supi[5:]] = p
		plansMu.Unlock()
		want := ccr
		rsp, e := verifapi.ClientCCR(supi, &ccr)
		err = e
		p.mu.Lock()
		got := p.gotCCR
		p.mu.Unlock()
		if got != nil {
			want.DestinationHost, want.DestinationRealm = got.DestinationHost, got.DestinationRealm
			sentReq, gotReq = reflect.ValueOf(want), reflect.ValueOf(*got)
		}
		if rsp != nil {
			sentAns, gotAns = reflect.ValueOf(cca), reflect.ValueOf(*rsp)
		}
	}
	plansMu.Lock()
	delete(plans, supi[5:])
	plansMu.Unlock()
	if !gotReq.IsValid() {
		return v.Failf("client/request-not-received/"+c.Kind, "the peer did not receive the %s sent through the CHF's client (client error: %v)", c.Kind, err)
	}
	if d := diamgen.DiffValues(sentReq, gotReq, c.Kind); d != "" {
		return v.Failf("client/request-field-differs/"+sigTail(d), "through the CHF's client: %s", d)
	}
	if err != nil || !gotAns.IsValid() {
		return v.Failf("client/answer-not-returned/"+c.Kind, "the peer answered the %s at once, the CHF's client returned error %v", c.Kind, err)
	}
	if d := diamgen.DiffValues(sentAns, gotAns, c.Kind[:2]+"A"); d != "" {
		// a client that asked again may return the second answer - as the peer sent it, not a mixture of the two
		p.mu.Lock()
		asked := p.nCanned
		p.mu.Unlock()
		if !(asked >= 2 && second.IsValid() && diamgen.DiffValues(second, gotAns, c.Kind[:2]+"A") == "") {
			return v.Failf("client/answer-field-differs/"+sigTail(d), "through the CHF's client (the peer was asked %d times): %s", asked, d)
		}
		v.Label("client-asked-again")
	}
	if second.IsValid() {
		v.Label("first-answer-with-failure-result-code-then-another-answer")
	}
	diamgen.CountFeatures(sentAns, &st)
	diamgen.CountFeatures(sentReq, &st)
	if st.OptionalPresent >= 1 {
		v.Label("optional-grouped-present")
	}
	if st.OptionalPresent >= 1 && st.Extreme >= 1 {
		v.NonTrivial = true
	}
	return v
}

// sigTail keeps the field path of a difference (up to the colon).
func sigTail(d string) string {
	for i := 0; i < len(d); i++ {
		if d[i] == ':' {
			return d[:i]
		}
	}
	return d
}

func TestC17Clients(t *testing.T) { h.Run(t, "C17", "clients", genClient, judgeClient) }

func genClientKind(t *rapid.T, kind string) clientCase {
	for {
		if c := genClient(t); c.Kind == kind {
			return c
		}
	}
}

// one long run per client
func TestC17ClientsLong(t *testing.T) {
	h.Run(t, "C17", "clients-long", func(t *rapid.T) []clientCase {
		var out []clientCase
		for _, k := range []string{"SUR", "CCR"} {
			c := genClientKind(t, k)
			c.N = rapid.IntRange(1050, h.Scale(1300, 5000)).Draw(t, "n")
			out = append(out, c)
		}
		return out
	}, func(cs []clientCase) *h.Verdict {
		agg := &h.Verdict{}
		for _, c := range cs {
			v := judgeClient(c)
			agg.Labels = append(agg.Labels, v.Labels...)
			agg.NonTrivial = agg.NonTrivial || v.NonTrivial
			if v.Failed() {
				agg.Sig, agg.Msg = v.Sig, v.Msg
				break
			}
		}
		return agg
	})
}
