// Engine fault: C19 - the CHF is pointed at harness-owned Diameter peers that
// obey a generated fault script (delay beyond the 5 s client timeout, drop,
// slow-but-in-time) per subscriber and exchange.
package fault

import (
	"bytes"
	"crypto/tls"
	"fmt"
	"net"
	"os"
	"runtime"
	"sort"
	"strconv"
	"strings"
	"sync"
	"sync/atomic"
	"testing"
	"time"

	"github.com/fiorix/go-diameter/diam"
	"github.com/fiorix/go-diameter/diam/avp"
	"github.com/fiorix/go-diameter/diam/datatype"
	"github.com/fiorix/go-diameter/diam/dict"
	"github.com/fiorix/go-diameter/diam/sm"
	"pgregory.net/rapid"

	cdt "github.com/free5gc/chf/ccs_diameter/datatype"
	cdict "github.com/free5gc/chf/ccs_diameter/dict"
	"github.com/free5gc/chf/verifapi"
	"github.com/free5gc/openapi/models"
	"verifharness/h"
	"verifharness/stackenv"
)

var env *stackenv.Env

// Action of a peer for one exchange.
//
//	prompt: answer at once          slow: answer after 1 s (in time)
//	late:   answer after Ms > 5000  drop: never answer
//	held:   answer sent after Ms (< 5000) and read by the client's connection reader, whose hand-over to the
//	        handler is held (dispatch hook in the harness's copy of the Diameter library) until the peer has
//	        received the subscriber's next request on that interface: the stale answer is dispatched from the
//	        earlier request's connection while the later request is waiting, before the later request's own answer
type Action struct {
	Kind string `json:"kind"`
	Ms   int    `json:"ms,omitempty"`
	Us   int    `json:"us,omitempty"`
}

// Step is one update of the script with the faults of its exchanges.
type Step struct {
	Abmf    Action `json:"abmf"`            // the credit-control (reservation) exchange
	Reserve Action `json:"reserve"`         // the rating exchange that prices the reservation
	Cost    Action `json:"cost"`            // the update's first rating exchange (tariff enquiry; in a settlement: the price enquiry)
	GapMs   int    `json:"gapMs"`           // pause after this update
	Final   bool   `json:"final,omitempty"` // the update carries a FINAL trigger: the rating group is settled (priced, then refund or final debit at the account server) instead of topped up
}

type Script struct {
	Steps []Step `json:"steps"`
}

type Batch struct {
	Scripts []Script `json:"scripts"`
}

type exchange struct {
	peer     string // abmf | rating
	role     string // reserve | cost (rating only)
	k        int
	recv     time.Time
	value    uint64 // what the answer carries (grant resp. allowed units)
	action   Action
	answered time.Time
	werr     error
	tariff   int64 // unit cost carried by a rating answer (identifies it, too)
	rg       int   // rating group (unit groups)
}

type subPlan struct {
	mu        sync.Mutex
	step      int // index of the update in flight
	steps     []Step
	exchanges []*exchange
	nAbmf     int
	nReserve  int
	nRating   int
	// engine fault, unit clients (C17): the peer records the request it received and answers with a given message
	cannedSUA *cdt.ServiceUsageResponse
	cannedCCA *cdt.AccountDebitResponse
	gotSUR    *cdt.ServiceUsageRequest
	gotCCR    *cdt.AccountDebitRequest
	// a second answer, given to every request after the first one (a client that asks again gets something else)
	cannedSUA2 *cdt.ServiceUsageResponse
	cannedCCA2 *cdt.AccountDebitResponse
	nCanned    int
	held       map[string][]*hold // by peer: answers read by the client and not yet dispatched
	staleRuns  int                // held answers dispatched while a later request was waiting
	costDone   map[int]bool       // updates whose first tariff enquiry has been seen
	// unit groups: every request reports two rating groups; rating answers carry a tariff per rating group
	// (7 resp. 3), the exchanges are recorded with their rating group, and the tariff enquiry that opens the
	// SECOND group's part of an update follows the step's Cost action
	groups     bool
	costDoneRG map[[2]int]bool
}

type holdKey struct{ code, hbh, e2e uint32 }

type hold struct {
	key        holdKey
	release    chan struct{}
	byRequest  bool // released because the next request arrived (not by the bound)
	dispatched chan struct{}
}

var holds sync.Map // holdKey -> *hold

// beforeDispatch runs in the reader task of every Diameter connection of this process.
func beforeDispatch(c diam.Conn, m *diam.Message) {
	if m.Header.CommandFlags&diam.RequestFlag != 0 {
		return
	}
	v, ok := holds.Load(holdKey{m.Header.CommandCode, m.Header.HopByHopID, m.Header.EndToEndID})
	if !ok {
		return
	}
	hd := v.(*hold)
	holds.Delete(hd.key)
	dbg("hook holds", hd.key)
	select {
	case <-hd.release:
	case <-time.After(12 * time.Second):
	}
	dbg("hook lets go", hd.key, hd.byRequest)
	// the dispatch itself follows at once in this task; give it a moment before the peer goes on
	go func() { time.Sleep(40 * time.Millisecond); close(hd.dispatched) }()
}

// releaseHeld lets every held answer of this subscriber on this interface be dispatched now; it returns when
// they have been.
func (p *subPlan) releaseHeld(peer string) bool {
	p.mu.Lock()
	hs := p.held[peer]
	delete(p.held, peer)
	p.mu.Unlock()
	dbg("releaseHeld", peer, len(hs))
	for _, hd := range hs {
		hd.byRequest = true
		close(hd.release)
	}
	for _, hd := range hs {
		select {
		case <-hd.dispatched:
		case <-time.After(2 * time.Second):
		}
	}
	if len(hs) > 0 {
		dbg("releaseHeld done", peer)
		p.mu.Lock()
		p.staleRuns += len(hs)
		p.mu.Unlock()
	}
	return len(hs) > 0
}

func dbg(a ...interface{}) {
	if os.Getenv("VERIF_DEBUG") != "" {
		fmt.Fprintln(os.Stderr, append([]interface{}{"DEBUG", time.Now().Format("05.000")}, a...)...)
	}
}

func (p *subPlan) hold(peer string, m *diam.Message) {
	dbg("hold registered", peer, m.Header.HopByHopID, m.Header.EndToEndID)
	hd := &hold{key: holdKey{m.Header.CommandCode, m.Header.HopByHopID, m.Header.EndToEndID}, release: make(chan struct{}), dispatched: make(chan struct{})}
	holds.Store(hd.key, hd)
	p.mu.Lock()
	if p.held == nil {
		p.held = map[string][]*hold{}
	}
	p.held[peer] = append(p.held[peer], hd)
	p.mu.Unlock()
}

var (
	plansMu sync.Mutex
	plans   = map[string]*subPlan{} // by subscription id data (SUPI without "imsi-")
)

func planOf(sub string) *subPlan {
	plansMu.Lock()
	defer plansMu.Unlock()
	return plans[sub]
}

func schedule(a Action, f func()) {
	switch a.Kind {
	case "drop":
	case "late", "slow", "held":
		go func() { time.Sleep(time.Duration(a.Ms) * time.Millisecond); f() }()
	case "boundary":
		// aimed at the client's 5 s timer itself: Us microseconds after the request was received
		go func() { time.Sleep(time.Duration(a.Ms)*time.Millisecond + time.Duration(a.Us)*time.Microsecond); f() }()
	default:
		f()
	}
}

// writeAnswer sends the answer; a "dup" action sends it twice in one write (one TLS record), the way a
// retransmitting peer's answers can reach the client back to back.
func writeAnswer(c diam.Conn, a *diam.Message, act Action) error {
	var buf bytes.Buffer
	if _, err := a.WriteTo(&buf); err != nil {
		return err
	}
	out := buf.Bytes()
	if act.Kind == "dup" {
		out = append(append([]byte{}, out...), out...)
		if act.Us == 3 {
			out = append(out, buf.Bytes()...) // three copies in one write
		}
	}
	if act.Kind == "dupfail" {
		// the answer, followed in the same write by a copy that carries a failure result code
		rej := *a
		hdr := *a.Header
		rej.Header = &hdr
		rej.AVP = nil
		for _, x := range a.AVP {
			if x.Code != avp.ResultCode {
				rej.AVP = append(rej.AVP, x)
			} else {
				rej.Header.MessageLength -= uint32(x.Len())
			}
		}
		rej.AddAVP(diam.NewAVP(avp.ResultCode, avp.Mbit, 0, datatype.Unsigned32(diam.UnableToComply)))
		var b2 bytes.Buffer
		if _, err := rej.WriteTo(&b2); err == nil {
			out = append(append([]byte{}, out...), b2.Bytes()...)
		}
	}
	_, err := c.Write(out)
	return err
}

func startPeers(rfPort, abmfPort int, pemF, keyF string) error {
	_ = dict.Default.Load(bytes.NewReader([]byte(cdict.RateDictionary)))
	_ = dict.Default.Load(bytes.NewReader([]byte(cdict.AbmfDictionary)))
	// in every other process the peers announce the Origin-Host the CHF itself announces ("client"): two nodes of one
	// realm may be configured with the same name by mistake, and nothing in the exchange depends on the name
	origin := "server"
	if sh, _ := strconv.Atoi(os.Getenv("VERIF_SHARD")); sh%2 == 1 {
		origin = "client"
	}
	settings := &sm.Settings{OriginHost: datatype.DiameterIdentity(origin), OriginRealm: "go-diameter", VendorID: 13, ProductName: "go-diameter", FirmwareRevision: 1}
	// every other connection of a peer is served by a second instance that announces another Origin-Host (two
	// instances behind one address answering in turn)
	other := *settings
	other.OriginHost = datatype.DiameterIdentity(origin + "-2")
	rmux, rmux2 := sm.New(settings), sm.New(&other)
	surHandler := func(c diam.Conn, m *diam.Message) {
		var sur cdt.ServiceUsageRequest
		if m.Unmarshal(&sur) != nil || sur.SubscriptionId == nil {
			return
		}
		p := planOf(string(sur.SubscriptionId.SubscriptionIdData))
		if p == nil {
			return
		}
		if p.cannedSUA != nil {
			p.mu.Lock()
			p.gotSUR = &sur
			p.nCanned++
			ans := p.cannedSUA
			if p.nCanned >= 2 && p.cannedSUA2 != nil {
				ans = p.cannedSUA2
			}
			p.mu.Unlock()
			a := m.Answer(diam.Success)
			_ = a.Marshal(ans)
			_, _ = a.WriteTo(c)
			return
		}
		if sur.ServiceRating == nil {
			return
		}
		ex := &exchange{peer: "rating", role: "cost", recv: time.Now(), action: Action{Kind: "prompt"}}
		p.mu.Lock()
		if sur.ServiceRating.MonetaryQuota != 0 && sur.ServiceRating.RequestSubType == cdt.REQ_SUBTYPE_RESERVE {
			ex.role = "reserve"
			p.nReserve++
			ex.k = p.nReserve
			ex.value = uint64(100 + ex.k) // allowed units identify the exchange
			if p.step < len(p.steps) {
				ex.action = p.steps[p.step].Reserve
			}
		}
		if ex.role == "cost" && p.step < len(p.steps) && !p.costDone[p.step] {
			if p.costDone == nil {
				p.costDone = map[int]bool{}
			}
			p.costDone[p.step] = true
			if k := p.steps[p.step].Cost.Kind; k != "" {
				ex.action = p.steps[p.step].Cost
			}
		}
		p.nRating++
		ex.tariff = int64(2 + p.nRating%5) // every rating answer carries its own unit cost
		if p.groups {
			ex.rg = int(sur.ServiceRating.ServiceIdentifier)
			ex.tariff = map[int]int64{1: 7, 2: 3}[ex.rg]
			ex.action = Action{Kind: "prompt"}
			if ex.role == "cost" && ex.rg == 2 && p.step < len(p.steps) {
				if p.costDoneRG == nil {
					p.costDoneRG = map[[2]int]bool{}
				}
				if !p.costDoneRG[[2]int{p.step, 2}] {
					p.costDoneRG[[2]int{p.step, 2}] = true
					if p.steps[p.step].Cost.Kind != "" {
						ex.action = p.steps[p.step].Cost
					}
				}
			}
		}
		p.exchanges = append(p.exchanges, ex)
		p.mu.Unlock()
		p.releaseHeld("rating") // a held earlier answer is dispatched now, before this request is answered
		sua := cdt.ServiceUsageResponse{SessionId: sur.SessionId, EventTimestamp: datatype.Time(time.Now()), ServiceRating: &cdt.ServiceRating{
			AllowedUnits: datatype.Unsigned32(ex.value), Price: sur.ServiceRating.ConsumedUnits,
			MonetaryTariff: &cdt.MonetaryTariff{CurrencyCode: 901, RateElement: &cdt.RateElement{CCUnitType: cdt.MONEY, UnitCost: &cdt.UnitCost{ValueDigits: datatype.Integer64(ex.tariff), Exponent: 0}}}}}
		if ex.action.Kind == "held" {
			p.hold("rating", m)
		}
		schedule(ex.action, func() {
			a := m.Answer(diam.Success)
			_ = a.Marshal(&sua)
			err := writeAnswer(c, a, ex.action)
			p.mu.Lock()
			ex.answered, ex.werr = time.Now(), err
			p.mu.Unlock()
		})
	}
	rmux.HandleFunc("SUR", surHandler)
	rmux2.HandleFunc("SUR", surHandler)
	amux, amux2 := sm.New(settings), sm.New(&other)
	ccrHandler := func(c diam.Conn, m *diam.Message) {
		var ccr cdt.AccountDebitRequest
		if m.Unmarshal(&ccr) != nil || ccr.SubscriptionId == nil {
			return
		}
		p := planOf(string(ccr.SubscriptionId.SubscriptionIdData))
		if p == nil {
			return
		}
		if p.cannedCCA != nil {
			p.mu.Lock()
			p.gotCCR = &ccr
			p.nCanned++
			ans := p.cannedCCA
			if p.nCanned >= 2 && p.cannedCCA2 != nil {
				ans = p.cannedCCA2
			}
			p.mu.Unlock()
			a := m.Answer(diam.Success)
			_ = a.Marshal(ans)
			_, _ = a.WriteTo(c)
			return
		}
		if ccr.MultipleServicesCreditControl == nil {
			return
		}
		ex := &exchange{peer: "abmf", role: "reserve", recv: time.Now(), action: Action{Kind: "prompt"}}
		p.mu.Lock()
		p.nAbmf++
		ex.k = p.nAbmf
		ex.value = uint64(1000 + ex.k) // the grant identifies the exchange
		ex.rg = int(ccr.MultipleServicesCreditControl.RatingGroup)
		if p.step < len(p.steps) {
			ex.action = p.steps[p.step].Abmf
		}
		p.exchanges = append(p.exchanges, ex)
		p.mu.Unlock()
		p.releaseHeld("abmf")
		cca := cdt.AccountDebitResponse{SessionId: ccr.SessionId, CcRequestType: ccr.CcRequestType, CcRequestNumber: ccr.CcRequestNumber, EventTimestamp: datatype.Time(time.Now()),
			MultipleServicesCreditControl: &cdt.MultipleServicesCreditControl{RatingGroup: ccr.MultipleServicesCreditControl.RatingGroup,
				GrantedServiceUnit: &cdt.GrantedServiceUnit{CCTotalOctets: datatype.Unsigned64(ex.value)}}}
		if ex.action.Kind == "held" {
			p.hold("abmf", m)
		}
		schedule(ex.action, func() {
			a := m.Answer(diam.Success)
			_ = a.Marshal(&cca)
			err := writeAnswer(c, a, ex.action)
			p.mu.Lock()
			ex.answered, ex.werr = time.Now(), err
			p.mu.Unlock()
		})
	}
	amux.HandleFunc("CCR", ccrHandler)
	amux2.HandleFunc("CCR", ccrHandler)
	cert, err := tls.LoadX509KeyPair(pemF, keyF)
	if err != nil {
		return err
	}
	for port, muxes := range map[int][2]diam.Handler{rfPort: {rmux, rmux2}, abmfPort: {amux, amux2}} {
		l, err := net.Listen("tcp", fmt.Sprintf("127.0.0.1:%d", port))
		if err != nil {
			return err
		}
		// the accepted connections go to the two instances in turn
		a, b := &chanListener{Listener: l, ch: make(chan net.Conn, 16)}, &chanListener{Listener: l, ch: make(chan net.Conn, 16)}
		go func(l net.Listener) {
			cl := countingListener{l}
			for n := 0; ; n++ {
				c, err := cl.Accept()
				if err != nil {
					return
				}
				if n%2 == 0 {
					a.ch <- c
				} else {
					b.ch <- c
				}
			}
		}(l)
		for i, cl := range []*chanListener{a, b} {
			srv := &diam.Server{Handler: muxes[i]}
			go func(cl *chanListener) {
				_ = srv.Serve(tls.NewListener(cl, &tls.Config{Certificates: []tls.Certificate{cert}}))
			}(cl)
		}
	}
	return nil
}

// The peers count the transport connections they hold open, and can be slow to bring a new one up.
var (
	openConns    int64 // accepted and not yet closed, both peers
	setupDelayMs int64 // applied to connections accepted from now on: the peer's side of the TLS handshake starts that late
)

// chanListener hands out the connections a dispatcher puts into its channel.
type chanListener struct {
	net.Listener
	ch chan net.Conn
}

func (l *chanListener) Accept() (net.Conn, error) { return <-l.ch, nil }
func (l *chanListener) Close() error              { return nil }

type countingListener struct{ net.Listener }

// unit outage: while set, the peers hang up on every connection as soon as it is accepted (before the TLS handshake):
// the client's attempt to bring a connection up fails
var refuseConns, refusedConns int64

func (l countingListener) Accept() (net.Conn, error) {
	c, err := l.Listener.Accept()
	for err == nil && atomic.LoadInt64(&refuseConns) != 0 {
		atomic.AddInt64(&refusedConns, 1)
		c.Close()
		c, err = l.Listener.Accept()
	}
	if err != nil {
		return nil, err
	}
	atomic.AddInt64(&openConns, 1)
	return &countedConn{Conn: c, delay: time.Duration(atomic.LoadInt64(&setupDelayMs)) * time.Millisecond}, nil
}

type countedConn struct {
	net.Conn
	delay  time.Duration
	first  sync.Once
	closed int32
}

func (c *countedConn) Read(b []byte) (int, error) {
	c.first.Do(func() {
		if c.delay > 0 {
			time.Sleep(c.delay)
		}
	})
	return c.Conn.Read(b)
}

func (c *countedConn) Close() error {
	if atomic.CompareAndSwapInt32(&c.closed, 0, 1) {
		atomic.AddInt64(&openConns, -1)
	}
	return c.Conn.Close()
}

// connectionsLeft waits for the peers' connections to be closed (the CHF closes, the peer follows) and returns
// how many are still open after 6 s.
func connectionsLeft() int64 {
	for i := 0; i < 60; i++ {
		if atomic.LoadInt64(&openConns) == 0 {
			return 0
		}
		time.Sleep(100 * time.Millisecond)
	}
	return atomic.LoadInt64(&openConns)
}

func TestMain(m *testing.M) {
	diam.VerifBeforeDispatch = beforeDispatch
	rf, ab := stackenv.FreePort(), stackenv.FreePort()
	var err error
	env, err = stackenv.Start(stackenv.Options{OwnPeers: true, RfPort: rf, AbmfPort: ab})
	if err != nil {
		fmt.Fprintln(os.Stderr, "HARNESS:", err)
		os.Exit(2)
	}
	if err := startPeers(rf, ab, env.PemFile, env.KeyFile); err != nil {
		fmt.Fprintln(os.Stderr, "HARNESS:", err)
		os.Exit(2)
	}
	time.Sleep(400 * time.Millisecond)
	code := m.Run()
	env.Cleanup()
	os.Exit(code)
}

// every update reports this much usage: it is priced with the tariff of the update's own first enquiry
const usedPerUpdate = 600 // more than a grant of the peers buys: (nearly) every update needs a new reservation, so the account exchange is exercised at every step

func withheld(a Action) bool {
	return a.Kind == "drop" || (a.Kind == "late" && a.Ms > 5000) || a.Kind == "held"
}

type scriptResult struct {
	sig, msg string
	labels   []string
	// the script's last (prompt) update: the units it was granted (-1: none) and how long it took
	lastGranted int64
	lastTook    time.Duration
	lastPd      string
}

// unit losses: the scripts of a batch take every update together (all first updates, then all second ones ...)
var stepGates []*sync.WaitGroup

func dumpStuck() string {
	buf := make([]byte, 8<<20)
	n := runtime.Stack(buf, true)
	var out []string
	for _, g := range strings.Split(string(buf[:n]), "\n\n") {
		if strings.Contains(g, "SendAccountDebitRequest") || strings.Contains(g, "SendServiceUsageRequest") || strings.Contains(g, "HandleCCA") || strings.Contains(g, "HandleSUA") {
			lines := strings.Split(g, "\n")
			if len(lines) > 14 {
				lines = lines[:14]
			}
			out = append(out, strings.Join(lines, "\n"))
		}
	}
	if len(out) > 4 {
		out = out[:4]
	}
	return strings.Join(out, "\n--\n")
}

func runScript(sc Script) (r scriptResult) {
	r.lastGranted = -1
	gates, gate := stepGates, 0
	defer func() {
		for ; gate < len(gates); gate++ {
			gates[gate].Done()
		}
	}()
	supi := env.NewSupi()
	p := &subPlan{steps: append(append([]Step{}, sc.Steps...), Step{Abmf: Action{Kind: "prompt"}, Reserve: Action{Kind: "prompt"}})}
	plansMu.Lock()
	plans[supi[5:]] = p
	plansMu.Unlock()
	now := time.Now()
	nf := &models.ChfConvergedChargingNfIdentification{NFName: "smf", NodeFunctionality: "SMF"}
	var final []models.ChfConvergedChargingTrigger
	mk := func(used int32) models.ChfConvergedChargingChargingDataRequest {
		return models.ChfConvergedChargingChargingDataRequest{SubscriberIdentifier: supi, ChargingId: 1, NfConsumerIdentification: nf, InvocationTimeStamp: &now, InvocationSequenceNumber: 1, Triggers: final,
			MultipleUnitUsage: []models.ChfConvergedChargingMultipleUnitUsage{{RatingGroup: 1, RequestedUnit: &models.RequestedUnit{TotalVolume: 10000},
				UsedUnitContainer: []models.ChfConvergedChargingUsedUnitContainer{{QuotaManagementIndicator: models.QuotaManagementIndicator_ONLINE_CHARGING, TotalVolume: used, LocalSequenceNumber: 1}}}}}
	}
	_, loc, pd := verifapi.Create(mk(0))
	if pd != nil {
		r.sig, r.msg = "HARNESS-create", fmt.Sprint(pd)
		return r
	}
	ref := loc[strings.LastIndex(loc, "/")+1:]
	lateSeen, laterRequest := false, false
	for i, st := range p.steps {
		if gate < len(gates) {
			gates[gate].Done()
			gates[gate].Wait()
			gate++
		}
		p.mu.Lock()
		p.step = i
		first := len(p.exchanges)
		p.mu.Unlock()
		pre := verifapi.Snapshot(supi)
		if pre.Locked {
			r.sig, r.msg = "blocked/lock-held-before-request", fmt.Sprintf("update %d: the subscriber's lock is held although no request is in flight", i)
			return r
		}
		type out struct {
			rsp *models.ChfConvergedChargingChargingDataResponse
			pd  *models.ProblemDetails
		}
		ch := make(chan out, 1)
		t0 := time.Now()
		final = nil
		if st.Final {
			final = []models.ChfConvergedChargingTrigger{{TriggerType: models.ChfConvergedChargingTriggerType_FINAL, TriggerCategory: models.TriggerCategory_IMMEDIATE_REPORT}}
		}
		body := mk(usedPerUpdate)
		go func() {
			rsp, pd := verifapi.Update(body, ref)
			ch <- out{rsp, pd}
		}()
		var o out
		select {
		case o = <-ch:
		case <-time.After(35 * time.Second):
			// 4 exchanges x 5 s + margin: structural evidence decides
			locked := verifapi.Locked(supi)
			r.sig = "blocked/update-never-returns"
			r.msg = fmt.Sprintf("update %d of the script %+v has not returned after 35 s (more than 4 exchanges x 5 s timeout); subscriber lock held: %v; exchanges so far: %s\nstuck goroutines:\n%s", i, sc, locked, p.describe(), dumpStuck())
			if !locked {
				r.sig = "HARNESS-slow"
			}
			return r
		}
		if lateSeen {
			laterRequest = true
		}
		el := time.Since(t0)
		post := verifapi.Snapshot(supi)
		p.mu.Lock()
		mine := append([]*exchange{}, p.exchanges[first:]...)
		p.mu.Unlock()
		var abmfEx, resEx *exchange
		for _, ex := range mine {
			if ex.peer == "abmf" {
				abmfEx = ex
			} else if ex.role == "reserve" {
				resEx = ex
			}
		}
		if st.Final || pre.RatingType[1] == 2 {
			// (a rating group whose last settlement ended with a debit of the excess stays in debit mode: its next
			// report is settled, too)
			// settlement: the usage is priced by the rating peer, the account peer refunds the rest of the reservation
			// (or debits the excess); the reservation is cleared when - and only when - that exchange was answered
			fdesc := fmt.Sprintf("update %d (settlement, took %.1f s) of script %+v: reservation %d -> %d; exchanges of this update: %s", i, el.Seconds(), sc, pre.Reserved[1], post.Reserved[1], describe(mine))
			switch {
			case abmfEx == nil:
				if post.Reserved[1] != pre.Reserved[1] {
					r.sig, r.msg = "crosstalk/abmf/final-settlement-without-exchange", fdesc+" -- no credit-control exchange took place, yet the reservation changed"
					return r
				}
			case abmfEx.action.Kind == "boundary":
				lateSeen = true
				if post.Reserved[1] != 0 && post.Reserved[1] != pre.Reserved[1] {
					r.sig, r.msg = "crosstalk/abmf/final-settlement", fdesc+" -- the settlement answer raced the timeout: the reservation must be cleared or untouched"
					return r
				}
			case withheld(abmfEx.action):
				lateSeen = true
				if post.Reserved[1] != pre.Reserved[1] {
					r.sig, r.msg = "crosstalk/abmf/acted-without-own-answer", fdesc+" -- the settlement answer of this update was withheld beyond the timeout, yet the reservation changed"
					return r
				}
			default:
				if post.Reserved[1] != 0 {
					r.sig, r.msg = "own-answer-ignored/abmf-final", fdesc+" -- the settlement was answered in time but the reservation was not cleared"
					return r
				}
			}
			r.labels = append(r.labels, "final-settlement:"+func() string {
				if abmfEx == nil {
					return "none"
				}
				return abmfEx.action.Kind
			}())
			if i < len(sc.Steps) && st.GapMs > 0 {
				time.Sleep(time.Duration(st.GapMs) * time.Millisecond)
			}
			continue
		}
		// the reported usage is priced with the tariff the update's own first rating enquiry was answered with;
		// delta is the change of the reservation apart from that price
		var firstCost *exchange
		for _, ex := range mine {
			if ex.peer == "rating" {
				if ex.role == "cost" {
					firstCost = ex
				}
				break
			}
		}
		delta := post.Reserved[1] - pre.Reserved[1]
		if firstCost != nil {
			t := firstCost.tariff
			if withheld(firstCost.action) {
				t = 1 // without a tariff the CHF prices at unit cost 1
				lateSeen = true
			}
			delta += usedPerUpdate * t
		} else {
			delta += usedPerUpdate // no tariff enquiry reached the peer: unit cost 1
		}
		granted := int64(-1)
		if o.rsp != nil {
			for _, mi := range o.rsp.MultipleUnitInformation {
				if mi.RatingGroup == 1 && mi.GrantedUnit != nil {
					granted = int64(mi.GrantedUnit.TotalVolume)
				}
			}
		}
		if i == len(p.steps)-1 {
			r.lastGranted, r.lastTook = granted, el
			if o.pd != nil {
				r.lastPd = fmt.Sprintf("%d %s %s", o.pd.Status, o.pd.Cause, o.pd.Detail)
			}
		}
		desc := fmt.Sprintf("update %d (took %.1f s, reporting %d used units) of script %+v: reservation %d -> %d, granted %d; exchanges of this update: %s", i, el.Seconds(), usedPerUpdate, sc, pre.Reserved[1], post.Reserved[1], granted, describe(mine))
		if abmfEx == nil && delta != 0 {
			r.sig, r.msg = "crosstalk/rating/foreign-tariff-priced-usage", desc+fmt.Sprintf(" -- no credit-control exchange took place, so the reservation should have changed by the price of the usage at this update's own tariff only; it is off by %d", delta)
			return r
		}
		if os.Getenv("VERIF_DEBUG") != "" {
			fmt.Fprintln(os.Stderr, "DEBUG", desc, "staleRuns", p.staleRuns)
		}
		// (1) no cross-talk: what the operation acted on is the answer to its own request
		if abmfEx != nil && abmfEx.action.Kind == "boundary" {
			// the answer races the timeout: either outcome is this update's own business, nothing else is
			lateSeen = true
			if !(delta == 0 && granted < 0) && delta != int64(abmfEx.value) {
				r.sig, r.msg = "crosstalk/abmf/foreign-answer", desc+fmt.Sprintf(" -- the answer to this update's own credit-control request (racing the timeout) granted %d", abmfEx.value)
				return r
			}
		} else if abmfEx != nil {
			if withheld(abmfEx.action) {
				lateSeen = true
				if delta != 0 || granted >= 0 {
					r.sig, r.msg = "crosstalk/abmf/acted-without-own-answer", desc+" -- the credit-control answer of this update was withheld beyond the timeout, yet the operation acted on an answer"
					return r
				}
			} else if delta != int64(abmfEx.value) {
				if delta != 0 && delta != int64(abmfEx.value) {
					r.sig, r.msg = "crosstalk/abmf/foreign-answer", desc+fmt.Sprintf(" -- the answer to this update's own credit-control request granted %d", abmfEx.value)
					return r
				}
				r.sig, r.msg = "own-answer-ignored/abmf", desc+fmt.Sprintf(" -- the answer to this update's own credit-control request (grant %d) arrived in time but was not used", abmfEx.value)
				return r
			}
		}
		if resEx != nil && resEx.action.Kind == "boundary" {
			lateSeen = true
			if granted >= 0 && granted != int64(resEx.value) {
				r.sig, r.msg = "crosstalk/rating/foreign-answer", desc+fmt.Sprintf(" -- the answer to this update's own rating request (racing the timeout) allowed %d units", resEx.value)
				return r
			}
		} else if resEx != nil && (abmfEx == nil || (!withheld(abmfEx.action) && abmfEx.action.Kind != "boundary")) {
			if withheld(resEx.action) {
				lateSeen = true
				if granted >= 0 {
					r.sig, r.msg = "crosstalk/rating/acted-without-own-answer", desc+" -- the rating answer of this update was withheld beyond the timeout, yet units were granted"
					return r
				}
			} else if granted != int64(resEx.value) {
				if granted >= 0 {
					r.sig, r.msg = "crosstalk/rating/foreign-answer", desc+fmt.Sprintf(" -- the answer to this update's own rating request allowed %d units", resEx.value)
					return r
				}
				r.sig, r.msg = "own-answer-ignored/rating", desc+fmt.Sprintf(" -- the answer to this update's own rating request (allowed %d) arrived in time but no units were granted", resEx.value)
				return r
			}
		}
		// the unit cost the operation kept is the tariff of its own last tariff enquiry
		var lastCost *exchange
		for _, ex := range mine {
			if ex.peer == "rating" && ex.role == "cost" {
				lastCost = ex
			}
		}
		if lastCost != nil && post.UnitCost[1] != uint32(lastCost.tariff) && post.UnitCost[1] != 1 {
			r.sig, r.msg = "crosstalk/rating/foreign-tariff", desc+fmt.Sprintf(" -- the operation kept unit cost %d; the answer to its own last tariff enquiry carried %d", post.UnitCost[1], lastCost.tariff)
			return r
		}
		if i < len(sc.Steps) && st.GapMs > 0 {
			time.Sleep(time.Duration(st.GapMs) * time.Millisecond)
		}
	}
	// (2) nothing left blocked
	time.Sleep(50 * time.Millisecond)
	if verifapi.Locked(supi) {
		r.sig, r.msg = "blocked/lock-held-after-script", fmt.Sprintf("script %+v: the subscriber's lock is still held after all requests returned", sc)
		return r
	}
	if lateSeen && laterRequest {
		r.labels = append(r.labels, "NT:withheld-answer-then-later-request")
	}
	p.mu.Lock()
	if p.staleRuns > 0 {
		r.labels = append(r.labels, "NT:stale-answer-dispatched-while-later-request-waits")
	}
	p.mu.Unlock()
	for _, st := range sc.Steps {
		r.labels = append(r.labels, "abmf:"+st.Abmf.Kind, "reserve:"+st.Reserve.Kind)
		if st.Cost.Kind != "" && st.Cost.Kind != "prompt" {
			r.labels = append(r.labels, "tariff-enquiry:"+st.Cost.Kind)
		}
	}
	return r
}

func (p *subPlan) describe() string {
	p.mu.Lock()
	defer p.mu.Unlock()
	return describe(p.exchanges)
}

func describe(exs []*exchange) string {
	var parts []string
	for _, ex := range exs {
		a := "not answered"
		if !ex.answered.IsZero() {
			a = fmt.Sprintf("answered after %.1f s", ex.answered.Sub(ex.recv).Seconds())
			if ex.werr != nil {
				a += " (write failed: connection closed)"
			}
		}
		parts = append(parts, fmt.Sprintf("[%s/%s #%d value %d tariff %d %s%d: %s]", ex.peer, ex.role, ex.k, ex.value, ex.tariff, ex.action.Kind, ex.action.Ms, a))
	}
	return strings.Join(parts, " ")
}

func judgeBatch(b Batch) *h.Verdict {
	v := &h.Verdict{}
	res := make([]scriptResult, len(b.Scripts))
	var wg sync.WaitGroup
	for i := range b.Scripts {
		wg.Add(1)
		go func(i int) {
			defer wg.Done()
			res[i] = runScript(b.Scripts[i])
		}(i)
	}
	wg.Wait()
	// deterministic choice of the reported failure
	idx := make([]int, len(res))
	for i := range idx {
		idx[i] = i
	}
	sort.Slice(idx, func(a, c int) bool { return res[idx[a]].sig < res[idx[c]].sig })
	for _, i := range idx {
		for _, l := range res[i].labels {
			if strings.HasPrefix(l, "NT:") {
				v.NT(l[3:])
			} else {
				v.Label(l)
			}
		}
	}
	for _, i := range idx {
		if res[i].sig != "" {
			v.Failf(res[i].sig, "%s", res[i].msg)
			break
		}
	}
	return v
}

// a batch of scripts in which every faulted answer races the client's timer
func genBoundaryBatch(t *rapid.T) Batch {
	var b Batch
	n := h.Scale(40, 80)
	for i := 0; i < n; i++ {
		us := rapid.IntRange(-2500, 3500).Draw(t, "us")
		st := Step{Abmf: Action{Kind: "boundary", Ms: 4999, Us: us}, Reserve: Action{Kind: "prompt"}}
		if i%4 == 3 {
			st = Step{Abmf: Action{Kind: "prompt"}, Reserve: Action{Kind: "boundary", Ms: 4999, Us: us}}
		}
		b.Scripts = append(b.Scripts, Script{Steps: []Step{st, {Abmf: Action{Kind: "slow", Ms: 300}, Reserve: Action{Kind: "prompt"}}, {Abmf: Action{Kind: "prompt"}, Reserve: Action{Kind: "prompt"}}}})
	}
	return b
}

func TestC19Boundary(t *testing.T) {
	old := runtime.GOMAXPROCS(2) // fewer processors: longer scheduling latencies around the timer
	defer runtime.GOMAXPROCS(old)
	h.Run(t, "C19", "boundary", genBoundaryBatch, judgeBatch)
}

// leftoverTasks counts goroutines still inside the CHF's Diameter client code.
func leftoverTasks() (int, string) {
	for i := 0; i < 30; i++ {
		buf := make([]byte, 16<<20)
		n := runtime.Stack(buf, true)
		cnt := 0
		sample := ""
		for _, g := range strings.Split(string(buf[:n]), "\n\n") {
			if strings.Contains(g, "chf/internal/abmf.") || strings.Contains(g, "chf/internal/rating.") {
				cnt++
				if sample == "" {
					lines := strings.Split(g, "\n")
					if len(lines) > 10 {
						lines = lines[:10]
					}
					sample = strings.Join(lines, "\n")
				}
			}
		}
		if cnt == 0 || i == 29 {
			return cnt, sample
		}
		time.Sleep(100 * time.Millisecond)
	}
	return 0, ""
}

// C18 under faults: duplicated and withheld answers must not leave tasks behind.
type surplusCase struct {
	Subs int    `json:"subs"`
	N    int    `json:"n"` // updates per subscriber
	Kind string `json:"kind"`
}

func judgeSurplus(c surplusCase) *h.Verdict {
	v := &h.Verdict{NonTrivial: true}
	v.Label("faulty-answers:" + c.Kind)
	var b Batch
	for i := 0; i < c.Subs; i++ {
		var sc Script
		for j := 0; j < c.N; j++ {
			sc.Steps = append(sc.Steps, Step{Abmf: Action{Kind: c.Kind}, Reserve: Action{Kind: c.Kind}})
		}
		b.Scripts = append(b.Scripts, sc)
	}
	bv := judgeBatch(b)
	if bv.Failed() {
		return bv
	}
	if n, sample := leftoverTasks(); n > 0 {
		return v.Failf("tasks-left-after-surplus-answers", "%d subscribers x %d updates answered with %q answers left %d goroutines inside the CHF's Diameter client code, e.g.\n%s", c.Subs, c.N, c.Kind, n, sample)
	}
	if n := connectionsLeft(); n > 0 {
		return v.Failf("connections-left-after-surplus-answers", "%d subscribers x %d updates answered with %q answers: the peers still hold %d connections open 6 s after the last request returned", c.Subs, c.N, c.Kind, n)
	}
	return v
}

// C18 with peers that are slow to bring a connection up (the peer's side of the TLS handshake starts late).
type setupCase struct {
	Subs    int `json:"subs"`
	N       int `json:"n"`
	DelayMs int `json:"delayMs"`
}

func judgeSetup(c setupCase) *h.Verdict {
	v := &h.Verdict{NonTrivial: c.DelayMs > 0}
	v.Label(fmt.Sprintf("setup-delay:%dms", c.DelayMs))
	var b Batch
	for i := 0; i < c.Subs; i++ {
		var sc Script
		for j := 0; j < c.N; j++ {
			sc.Steps = append(sc.Steps, Step{Abmf: Action{Kind: "prompt"}, Reserve: Action{Kind: "prompt"}})
		}
		b.Scripts = append(b.Scripts, sc)
	}
	atomic.StoreInt64(&setupDelayMs, int64(c.DelayMs))
	bv := judgeBatch(b)
	atomic.StoreInt64(&setupDelayMs, 0)
	if bv.Failed() {
		// a client that gives up on a peer this slow, and whatever it then does with the request, is not a leak
		// (answer matching is C19's business); only a request that never returns and what is left behind count here
		if strings.HasPrefix(bv.Sig, "blocked/") {
			return bv
		}
	}
	if n, sample := leftoverTasks(); n > 0 {
		return v.Failf("tasks-left-after-slow-setup", "%d subscribers x %d updates against peers that take %d ms to bring a connection up left %d goroutines inside the CHF's Diameter client code, e.g.\n%s", c.Subs, c.N, c.DelayMs, n, sample)
	}
	if n := connectionsLeft(); n > 0 {
		return v.Failf("connections-left-after-slow-setup", "%d subscribers x %d updates against peers that take %d ms to bring a connection up: the peers still hold %d connections open 6 s after the last request returned", c.Subs, c.N, c.DelayMs, n)
	}
	return v
}

// Outage: for a while the peers hang up on every connection attempt; more than a hundred requests fail to bring a
// connection up (one after the other or several at a time).  Every one of them returns, and once the peers are back the
// next requests are served like any other; nothing is left behind.
type outageCase struct {
	Fails int `json:"fails"` // updates sent during the outage
	Par   int `json:"par"`   // how many at a time
	After int `json:"after"` // subscribers served after the outage
}

func judgeOutage(c outageCase) *h.Verdict {
	v := &h.Verdict{NonTrivial: true}
	now := time.Now()
	nf := &models.ChfConvergedChargingNfIdentification{NFName: "smf", NodeFunctionality: "SMF"}
	mk := func(supi string, used int32) models.ChfConvergedChargingChargingDataRequest {
		return models.ChfConvergedChargingChargingDataRequest{SubscriberIdentifier: supi, ChargingId: 1, NfConsumerIdentification: nf, InvocationTimeStamp: &now, InvocationSequenceNumber: 1,
			MultipleUnitUsage: []models.ChfConvergedChargingMultipleUnitUsage{{RatingGroup: 1, RequestedUnit: &models.RequestedUnit{TotalVolume: 10000},
				UsedUnitContainer: []models.ChfConvergedChargingUsedUnitContainer{{QuotaManagementIndicator: models.QuotaManagementIndicator_ONLINE_CHARGING, TotalVolume: used, LocalSequenceNumber: 1}}}}}
	}
	// sessions opened while the peers still answer
	type sub struct{ supi, ref string }
	var subs []sub
	for i := 0; i < c.Par; i++ {
		supi := env.NewSupi()
		plansMu.Lock()
		plans[supi[5:]] = &subPlan{steps: []Step{{Abmf: Action{Kind: "prompt"}, Reserve: Action{Kind: "prompt"}}}}
		plansMu.Unlock()
		_, loc, pd := verifapi.Create(mk(supi, 0))
		if pd != nil {
			return v.Failf("HARNESS-create", "%v", pd)
		}
		subs = append(subs, sub{supi, loc[strings.LastIndex(loc, "/")+1:]})
	}
	before := atomic.LoadInt64(&refusedConns)
	atomic.StoreInt64(&refuseConns, 1)
	stuck := int64(0)
	var wg sync.WaitGroup
	for w := 0; w < c.Par; w++ {
		wg.Add(1)
		go func(w int) {
			defer wg.Done()
			for k := 0; k < c.Fails/c.Par+1; k++ {
				done := make(chan struct{})
				go func() {
					verifapi.Update(mk(subs[w].supi, usedPerUpdate), subs[w].ref)
					close(done)
				}()
				select {
				case <-done:
				case <-time.After(35 * time.Second):
					atomic.AddInt64(&stuck, 1)
					return
				}
			}
		}(w)
	}
	wg.Wait()
	atomic.StoreInt64(&refuseConns, 0)
	failed := atomic.LoadInt64(&refusedConns) - before
	if stuck > 0 {
		return v.Failf("blocked/update-never-returns/during-outage", "while the peers hung up on every connection attempt (%d attempts so far) %d of %d concurrent updates did not return within 35 s\nstuck goroutines:\n%s", failed, stuck, c.Par, dumpStuck())
	}
	if failed >= 100 {
		v.Label("connection-attempts-failed>=100")
	}
	// the peers are back
	var b Batch
	for i := 0; i < c.After; i++ {
		b.Scripts = append(b.Scripts, Script{Steps: []Step{{Abmf: Action{Kind: "prompt"}, Reserve: Action{Kind: "prompt"}}}})
	}
	res := make([]scriptResult, c.After)
	for i := range b.Scripts {
		wg.Add(1)
		go func(i int) {
			defer wg.Done()
			res[i] = runScript(b.Scripts[i])
		}(i)
	}
	wg.Wait()
	for _, r := range res {
		if r.sig != "" {
			return v.Failf(r.sig, "after an outage in which %d connection attempts failed: %s", failed, r.msg)
		}
		if r.lastGranted < 0 {
			return v.Failf("blocked/later-request-does-not-complete/after-outage", "after an outage in which %d connection attempts failed the peers answer at once, yet a new subscriber's request was not granted anything (took %.1f s, answer %q)", failed, r.lastTook.Seconds(), r.lastPd)
		}
	}
	for _, sb := range subs {
		if verifapi.Locked(sb.supi) {
			return v.Failf("blocked/lock-held-after-outage", "a subscriber whose updates failed during the outage is still locked")
		}
	}
	if n, sample := leftoverTasks(); n > 0 {
		return v.Failf("tasks-left-after-outage", "%d failed connection attempts, then %d subscribers served: %d goroutines are left inside the CHF's Diameter client code, e.g.\n%s", failed, c.After, n, sample)
	}
	if n := connectionsLeft(); n > 0 {
		return v.Failf("connections-left-after-outage", "%d failed connection attempts, then %d subscribers served: the peers still hold %d connections open 6 s after the last request returned", failed, c.After, n)
	}
	return v
}

func TestC18Outage(t *testing.T) {
	h.Run(t, "C18", "outage", func(t *rapid.T) outageCase {
		return outageCase{Fails: rapid.IntRange(110, h.Scale(160, 600)).Draw(t, "fails"), Par: rapid.SampledFrom([]int{1, 4, 16}).Draw(t, "par"), After: rapid.IntRange(20, 40).Draw(t, "after")}
	}, judgeOutage)
}

// Crowd: many subscribers charged at the same moment while the peers take a while to answer - more requests
// outstanding at a peer than any limit a client may have.  Every request is answered from its own exchange and nothing
// is left behind.
type crowdCase struct {
	Subs   int `json:"subs"`
	N      int `json:"n"`
	SlowMs int `json:"slowMs"`
}

func judgeCrowd(c crowdCase) *h.Verdict {
	v := &h.Verdict{NonTrivial: true}
	v.Label("requests-outstanding-at-a-peer>=60")
	var b Batch
	for i := 0; i < c.Subs; i++ {
		var sc Script
		for j := 0; j < c.N; j++ {
			sc.Steps = append(sc.Steps, Step{Abmf: Action{Kind: "slow", Ms: c.SlowMs}, Reserve: Action{Kind: "slow", Ms: c.SlowMs / 2}})
		}
		b.Scripts = append(b.Scripts, sc)
	}
	stepGates = nil
	for j := 0; j <= c.N; j++ {
		g := &sync.WaitGroup{}
		g.Add(c.Subs)
		stepGates = append(stepGates, g)
	}
	bv := judgeBatch(b)
	stepGates = nil
	if bv.Failed() {
		return bv
	}
	if n, sample := leftoverTasks(); n > 0 {
		return v.Failf("tasks-left-after-crowd", "%d subscribers x %d updates, all at the same moment, against peers that answer after %d ms left %d goroutines inside the CHF's Diameter client code, e.g.\n%s", c.Subs, c.N, c.SlowMs, n, sample)
	}
	if n := connectionsLeft(); n > 0 {
		return v.Failf("connections-left-after-crowd", "%d subscribers x %d updates, all at the same moment, against peers that answer after %d ms: the peers still hold %d connections open 6 s after the last request returned", c.Subs, c.N, c.SlowMs, n)
	}
	return v
}

func TestC18Crowd(t *testing.T) {
	h.Run(t, "C18", "crowd", func(t *rapid.T) crowdCase {
		return crowdCase{Subs: rapid.IntRange(60, h.Scale(100, 400)).Draw(t, "subs"), N: rapid.IntRange(2, 3).Draw(t, "n"), SlowMs: rapid.SampledFrom([]int{300, 600, 1000}).Draw(t, "slowMs")}
	}, judgeCrowd)
}

func TestC18SlowSetup(t *testing.T) {
	h.Run(t, "C18", "setup", func(t *rapid.T) setupCase {
		return setupCase{Subs: rapid.IntRange(1, 3).Draw(t, "subs"), N: rapid.IntRange(1, 2).Draw(t, "n"), DelayMs: rapid.SampledFrom([]int{0, 300, 1200, 2500, 3500, 4500}).Draw(t, "delayMs")}
	}, judgeSetup)
}

func TestC18Surplus(t *testing.T) {
	h.Run(t, "C18", "surplus", func(t *rapid.T) surplusCase {
		return surplusCase{Subs: rapid.IntRange(2, 6).Draw(t, "subs"), N: rapid.IntRange(2, h.Scale(6, 20)).Draw(t, "n"), Kind: rapid.SampledFrom([]string{"dup", "dup", "prompt"}).Draw(t, "kind")}
	}, judgeSurplus)
}

func genAction(t *rapid.T, n string) Action {
	switch rapid.SampledFrom([]string{"prompt", "prompt", "slow", "late", "late", "drop", "dup", "dupfail", "boundary", "boundary", "held", "held"}).Draw(t, n) {
	case "dupfail":
		return Action{Kind: "dupfail"}
	case "held":
		return Action{Kind: "held", Ms: rapid.SampledFrom([]int{0, 2000, 4800}).Draw(t, n+"HeldMs")}
	case "dup":
		return Action{Kind: "dup", Us: rapid.SampledFrom([]int{0, 3}).Draw(t, n+"Copies")}
	case "boundary":
		return Action{Kind: "boundary", Ms: 4999, Us: rapid.IntRange(-3000, 4000).Draw(t, n+"Us")}
	case "slow":
		return Action{Kind: "slow", Ms: rapid.SampledFrom([]int{1000, 3000}).Draw(t, n+"SlowMs")}
	case "late":
		return Action{Kind: "late", Ms: rapid.SampledFrom([]int{5500, 6500, 8000}).Draw(t, n+"Ms")}
	case "drop":
		return Action{Kind: "drop"}
	}
	return Action{Kind: "prompt"}
}

// the tariff enquiry that opens an update: mostly prompt, sometimes slow, late or lost
func genCostAction(t *rapid.T) Action {
	switch rapid.SampledFrom([]string{"prompt", "prompt", "prompt", "prompt", "slow", "late", "drop"}).Draw(t, "cost") {
	case "slow":
		return Action{Kind: "slow", Ms: rapid.SampledFrom([]int{1000, 3000}).Draw(t, "costSlowMs")}
	case "late":
		return Action{Kind: "late", Ms: 6500}
	case "drop":
		return Action{Kind: "drop"}
	}
	return Action{Kind: "prompt"}
}

func genScript(t *rapid.T) Script {
	var sc Script
	n := rapid.IntRange(2, 3).Draw(t, "nSteps")
	for i := 0; i < n; i++ {
		st := Step{Abmf: genAction(t, "abmf"), Reserve: Action{Kind: "prompt"}, Cost: genCostAction(t), GapMs: rapid.SampledFrom([]int{0, 0, 600, 2000}).Draw(t, "gap"), Final: rapid.IntRange(0, 3).Draw(t, "final") == 0}
		if rapid.IntRange(0, 3).Draw(t, "faultRating") == 0 {
			st.Reserve = genAction(t, "reserve")
		}
		sc.Steps = append(sc.Steps, st)
	}
	return sc
}

func genBatch(t *rapid.T) Batch {
	var b Batch
	// the two canonical patterns are always present; the rest is generated
	b.Scripts = append(b.Scripts,
		Script{Steps: []Step{{Abmf: Action{Kind: "late", Ms: 6500}, Reserve: Action{Kind: "prompt"}}, {Abmf: Action{Kind: "prompt"}, Reserve: Action{Kind: "prompt"}}}},
		Script{Steps: []Step{{Abmf: Action{Kind: "late", Ms: 5500}, Reserve: Action{Kind: "prompt"}}, {Abmf: Action{Kind: "slow", Ms: 1000}, Reserve: Action{Kind: "prompt"}}, {Abmf: Action{Kind: "prompt"}, Reserve: Action{Kind: "prompt"}}}})
	// a duplicated (retransmitted) answer on each interface, followed by further requests
	b.Scripts = append(b.Scripts,
		Script{Steps: []Step{{Abmf: Action{Kind: "prompt"}, Reserve: Action{Kind: "dup"}}, {Abmf: Action{Kind: "prompt"}, Reserve: Action{Kind: "prompt"}}}},
		Script{Steps: []Step{{Abmf: Action{Kind: "dup"}, Reserve: Action{Kind: "prompt"}}, {Abmf: Action{Kind: "prompt"}, Reserve: Action{Kind: "prompt"}}}})
	b.Scripts = append(b.Scripts,
		Script{Steps: []Step{{Abmf: Action{Kind: "dup", Us: 3}, Reserve: Action{Kind: "prompt"}}, {Abmf: Action{Kind: "prompt"}, Reserve: Action{Kind: "dup", Us: 3}}, {Abmf: Action{Kind: "prompt"}, Reserve: Action{Kind: "prompt"}}}})
	// an answer read in time by the connection's reader but handed over only when the next request is waiting
	b.Scripts = append(b.Scripts,
		Script{Steps: []Step{{Abmf: Action{Kind: "held", Ms: 4800}, Reserve: Action{Kind: "prompt"}}, {Abmf: Action{Kind: "prompt"}, Reserve: Action{Kind: "prompt"}}}},
		Script{Steps: []Step{{Abmf: Action{Kind: "prompt"}, Reserve: Action{Kind: "held", Ms: 4800}}, {Abmf: Action{Kind: "prompt"}, Reserve: Action{Kind: "prompt"}}}})
	// a settlement (FINAL) whose account answer is late, then further requests; an answer followed by a rejecting copy
	b.Scripts = append(b.Scripts,
		Script{Steps: []Step{{Abmf: Action{Kind: "prompt"}, Reserve: Action{Kind: "prompt"}}, {Abmf: Action{Kind: "late", Ms: 6500}, Reserve: Action{Kind: "prompt"}, Final: true}, {Abmf: Action{Kind: "prompt"}, Reserve: Action{Kind: "prompt"}}}},
		Script{Steps: []Step{{Abmf: Action{Kind: "prompt"}, Reserve: Action{Kind: "dupfail"}}, {Abmf: Action{Kind: "dupfail"}, Reserve: Action{Kind: "prompt"}}, {Abmf: Action{Kind: "prompt"}, Reserve: Action{Kind: "prompt"}}}})
	// the tariff enquiry that opens the update is answered too late, and the reservation's own rating answer is slow
	// enough to be still outstanding when that late answer arrives
	b.Scripts = append(b.Scripts,
		Script{Steps: []Step{{Abmf: Action{Kind: "prompt"}, Reserve: Action{Kind: "slow", Ms: 3000}, Cost: Action{Kind: "late", Ms: 6500}}, {Abmf: Action{Kind: "prompt"}, Reserve: Action{Kind: "prompt"}}}})
	// the tariff enquiry that opens the update is lost; the account peer then answers at once
	b.Scripts = append(b.Scripts,
		Script{Steps: []Step{{Abmf: Action{Kind: "prompt"}, Reserve: Action{Kind: "prompt"}, Cost: Action{Kind: "drop"}}, {Abmf: Action{Kind: "prompt"}, Reserve: Action{Kind: "prompt"}, Cost: Action{Kind: "slow", Ms: 3000}}}})
	n := h.Scale(12, 20)
	for i := 0; i < n; i++ {
		b.Scripts = append(b.Scripts, genScript(t))
	}
	return b
}

// Unit losses: many answers lost in a row.  N subscribers each send one update whose tariff enquiry is never
// answered - all of them together, nothing answered in between - and then, together again, a request the peers answer
// at once; then the same with the account exchange.  Every one of the later requests completes, with the grant of its
// own exchanges.
type lossesCase struct {
	N     int      `json:"n"`
	Order []string `json:"order"` // the interface whose answers are lost, per phase: cost | abmf | reserve
}

func judgeLosses(c lossesCase) *h.Verdict {
	v := &h.Verdict{}
	for ph, what := range c.Order {
		st := Step{Abmf: Action{Kind: "prompt"}, Reserve: Action{Kind: "prompt"}}
		switch what {
		case "cost":
			st.Cost = Action{Kind: "drop"}
		case "abmf":
			st.Abmf = Action{Kind: "drop"}
		case "reserve":
			st.Reserve = Action{Kind: "drop"}
		}
		var b Batch
		for i := 0; i < c.N; i++ {
			b.Scripts = append(b.Scripts, Script{Steps: []Step{st}})
		}
		stepGates = []*sync.WaitGroup{{}, {}}
		for _, g := range stepGates {
			g.Add(c.N)
		}
		res := make([]scriptResult, c.N)
		var wg sync.WaitGroup
		for i := range b.Scripts {
			wg.Add(1)
			go func(i int) {
				defer wg.Done()
				res[i] = runScript(b.Scripts[i])
			}(i)
		}
		wg.Wait()
		stepGates = nil
		failed, first := 0, -1
		for i, r := range res {
			if r.sig != "" {
				return v.Failf(r.sig, "phase %d (%d subscribers, every %s answer lost): %s", ph, c.N, what, r.msg)
			}
			if r.lastGranted < 0 {
				failed++
				if first < 0 {
					first = i
				}
			}
		}
		if failed > 0 {
			return v.Failf("blocked/later-request-does-not-complete/after-many-lost-"+what+"-answers", "phase %d: %d subscribers each lost the %s answer of one update (all together, nothing answered in between); afterwards the peers answer at once, yet the next request of %d of them was not granted anything (the first: took %.1f s, answer: %q)", ph, c.N, what, failed, res[first].lastTook.Seconds(), res[first].lastPd)
		}
		v.Label("lost-in-a-row:" + what)
	}
	if c.N >= 70 {
		v.NT("answers-lost-in-a-row>=70")
	}
	return v
}

func TestC19Losses(t *testing.T) {
	h.Run(t, "C19", "losses", func(t *rapid.T) lossesCase {
		return lossesCase{N: rapid.IntRange(70, h.Scale(110, 300)).Draw(t, "n"), Order: rapid.Permutation([]string{"cost", "abmf", "reserve"}).Draw(t, "order")}
	}, judgeLosses)
}

func TestC19LateAnswers(t *testing.T) { h.Run(t, "C19", "scripts", genBatch, judgeBatch) }

// Unit groups: every request reports two rating groups.  Each group's part of the operation has its own tariff
// enquiry, reservation and rating answers; what the operation does for a group comes from the answers to that
// group's own requests - also when the other group's enquiry was answered and this one's was not.
type groupsCase struct {
	Steps []Step `json:"steps"` // Cost: the tariff enquiry that opens rating group 2's part of the update
}

func judgeGroups(c groupsCase) *h.Verdict {
	v := &h.Verdict{NonTrivial: true}
	supi := env.NewSupi()
	p := &subPlan{groups: true, steps: append(append([]Step{}, c.Steps...), Step{Abmf: Action{Kind: "prompt"}, Reserve: Action{Kind: "prompt"}, Cost: Action{Kind: "prompt"}})}
	plansMu.Lock()
	plans[supi[5:]] = p
	plansMu.Unlock()
	now := time.Now()
	nf := &models.ChfConvergedChargingNfIdentification{NFName: "smf", NodeFunctionality: "SMF"}
	const used = 10
	mk := func(u int32) models.ChfConvergedChargingChargingDataRequest {
		var muu []models.ChfConvergedChargingMultipleUnitUsage
		for rg := int32(1); rg <= 2; rg++ {
			muu = append(muu, models.ChfConvergedChargingMultipleUnitUsage{RatingGroup: rg, RequestedUnit: &models.RequestedUnit{TotalVolume: 100},
				UsedUnitContainer: []models.ChfConvergedChargingUsedUnitContainer{{QuotaManagementIndicator: models.QuotaManagementIndicator_ONLINE_CHARGING, TotalVolume: u, LocalSequenceNumber: rg}}})
		}
		return models.ChfConvergedChargingChargingDataRequest{SubscriberIdentifier: supi, ChargingId: 1, NfConsumerIdentification: nf, InvocationTimeStamp: &now, InvocationSequenceNumber: 1, MultipleUnitUsage: muu}
	}
	_, loc, pd := verifapi.Create(mk(0))
	if pd != nil {
		return v.Failf("HARNESS-create", "%v", pd)
	}
	ref := loc[strings.LastIndex(loc, "/")+1:]
	tariff := map[int]int64{1: 7, 2: 3}
	for i, st := range p.steps {
		p.mu.Lock()
		p.step = i
		first := len(p.exchanges)
		p.mu.Unlock()
		pre := verifapi.Snapshot(supi)
		done := make(chan *models.ProblemDetails, 1)
		go func() { _, pd := verifapi.Update(mk(used), ref); done <- pd }()
		select {
		case <-done:
		case <-time.After(60 * time.Second):
			return v.Failf("blocked/update-never-returns", "update %d with two rating groups did not return within 60 s; lock held: %v", i, verifapi.Locked(supi))
		}
		post := verifapi.Snapshot(supi)
		p.mu.Lock()
		mine := append([]*exchange{}, p.exchanges[first:]...)
		p.mu.Unlock()
		if st.Cost.Kind != "" && st.Cost.Kind != "prompt" {
			v.Label("second-group-enquiry:" + st.Cost.Kind)
		}
		for rg := 1; rg <= 2; rg++ {
			// this group's own exchanges
			var firstCost, abmfEx *exchange
			for _, ex := range mine {
				if ex.rg != rg {
					continue
				}
				if ex.peer == "rating" && ex.role == "cost" && firstCost == nil {
					firstCost = ex
				}
				if ex.peer == "abmf" && abmfEx == nil {
					abmfEx = ex
				}
			}
			t := tariff[rg]
			if firstCost == nil || withheld(firstCost.action) {
				t = 1 // without an answer to its own tariff enquiry a group's usage is priced at unit cost 1
			}
			delta := post.Reserved[int32(rg)] - pre.Reserved[int32(rg)] + used*t
			want := int64(0)
			if abmfEx != nil {
				want = int64(abmfEx.value)
			}
			if delta != want {
				return v.Failf(fmt.Sprintf("crosstalk/rating-group-%d/foreign-tariff-or-grant", rg), "update %d (steps %+v): rating group %d: reservation %d -> %d; apart from the price of %d used units at its own tariff (%d) it changed by %d, the account exchange of this group granted %d; exchanges of this update: %s",
					i, c.Steps, rg, pre.Reserved[int32(rg)], post.Reserved[int32(rg)], used, t, delta, want, describe(mine))
			}
		}
	}
	if verifapi.Locked(supi) {
		return v.Failf("blocked/lock-held-after-script", "the subscriber's lock is still held after all requests returned")
	}
	return v
}

func TestC19Groups(t *testing.T) {
	h.Run(t, "C19", "groups", func(t *rapid.T) groupsCase {
		var c groupsCase
		n := rapid.IntRange(1, 2).Draw(t, "steps")
		for i := 0; i < n; i++ {
			c.Steps = append(c.Steps, Step{Abmf: Action{Kind: "prompt"}, Reserve: Action{Kind: "prompt"}, Cost: genCostAction(t)})
		}
		// the pattern is always present once: the second group's enquiry is lost
		c.Steps = append(c.Steps, Step{Abmf: Action{Kind: "prompt"}, Reserve: Action{Kind: "prompt"}, Cost: Action{Kind: "drop"}})
		return c
	}, judgeGroups)
}
