package diam

import (
	"bytes"
	"encoding/json"
	"encoding/xml"
	"fmt"
	"go/ast"
	"go/parser"
	"go/token"
	"os"
	"path/filepath"
	"reflect"
	"sort"
	"strconv"
	"strings"
	"testing"

	"github.com/fiorix/go-diameter/diam"
	"github.com/fiorix/go-diameter/diam/datatype"
	"github.com/fiorix/go-diameter/diam/dict"
	"pgregory.net/rapid"

	ccode "github.com/free5gc/chf/ccs_diameter/code"
	cdt "github.com/free5gc/chf/ccs_diameter/datatype"
	cdict "github.com/free5gc/chf/ccs_diameter/dict"
	"verifharness/diamgen"
	"verifharness/h"
)

// ------------------------------------------------- (a) message round trips

type msgCase struct {
	Kind string          `json:"kind"` // SUR | SUA | CCR | CCA
	Val  json.RawMessage `json:"val"`
	T    int64           `json:"t"` // every Time member (datatype.Time has no JSON form) is set to this instant
}

var msgTypes = diamgen.MsgTypes

type fillStats = diamgen.FillStats

var (
	fillDiam      = diamgen.FillDiam
	genStr        = diamgen.GenStr
	setTimes      = diamgen.SetTimes
	countFeatures = diamgen.CountFeatures
	diffValues    = diamgen.DiffValues
)

var lastStats fillStats

func genMsg(t *rapid.T) msgCase {
	kind := rapid.SampledFrom([]string{"SUR", "SUA", "CCR", "CCA"}).Draw(t, "kind")
	pv := reflect.New(msgTypes[kind])
	var st fillStats
	fillDiam(t, pv.Elem(), 0, &st)
	b, err := json.Marshal(pv.Interface())
	if err != nil {
		panic(err)
	}
	return msgCase{Kind: kind, Val: b, T: rapid.SampledFrom([]int64{0, 1, 946684800, 1790000000, 2085978495}).Draw(t, "time")}
}

func judgeMsg(c msgCase) *h.Verdict {
	v := &h.Verdict{}
	v.Label("msg:" + c.Kind)
	sent := reflect.New(msgTypes[c.Kind])
	if err := json.Unmarshal(c.Val, sent.Interface()); err != nil {
		return v.Failf("HARNESS-case", "%v", err)
	}
	setTimes(sent.Elem(), c.T)
	var st fillStats
	countFeatures(sent.Elem(), &st)
	if st.OptionalPresent >= 1 {
		v.Label("optional-grouped-present")
	}
	if st.Extreme >= 1 {
		v.Label("range-extreme")
	}
	if st.OptionalPresent >= 1 && st.Extreme >= 1 {
		v.NonTrivial = true
	}
	var m *diam.Message
	switch c.Kind {
	case "SUR":
		m = diam.NewRequest(ccode.ServiceUsageMessage, ccode.Re_interface, dict.Default)
	case "SUA":
		m = diam.NewRequest(ccode.ServiceUsageMessage, ccode.Re_interface, dict.Default).Answer(diam.Success)
	case "CCR":
		m = diam.NewRequest(ccode.ABMF_CreditControl, ccode.Re_interface, dict.Default)
	case "CCA":
		m = diam.NewRequest(ccode.ABMF_CreditControl, ccode.Re_interface, dict.Default).Answer(diam.Success)
	}
	if p, val, stk := h.Safely(func() {
		if err := m.Marshal(sent.Interface()); err != nil {
			v.Failf("marshal-error/"+c.Kind+"/"+sigTail(err.Error()), "Marshal(%s): %v", c.Kind, err)
		}
	}); p {
		return v.Failf("marshal-panic/"+c.Kind, "Marshal panicked: %v\n%s", val, stk)
	}
	if v.Failed() {
		return v
	}
	var buf bytes.Buffer
	if _, err := m.WriteTo(&buf); err != nil {
		return v.Failf("write-error/"+c.Kind, "%v", err)
	}
	rm, err := diam.ReadMessage(&buf, dict.Default)
	if err != nil {
		return v.Failf("read-error/"+c.Kind+"/"+sigTail(err.Error()), "ReadMessage of the serialised %s: %v", c.Kind, err)
	}
	got := reflect.New(msgTypes[c.Kind])
	if err := rm.Unmarshal(got.Interface()); err != nil {
		return v.Failf("unmarshal-error/"+c.Kind+"/"+sigTail(err.Error()), "Unmarshal(%s): %v", c.Kind, err)
	}
	if c.Kind == "SUA" || c.Kind == "CCA" {
		// Answer() adds Result-Code itself
		if f := got.Elem().FieldByName("ResultCode"); f.IsValid() && sent.Elem().FieldByName("ResultCode").Interface().(datatype.Unsigned32) == 0 {
			f.Set(reflect.Zero(f.Type()))
		}
	}
	if d := diffValues(sent.Elem(), got.Elem(), c.Kind); d != "" {
		parts := strings.SplitN(d, ":", 2)
		return v.Failf("field-differs/"+parts[0], "%s", d)
	}
	return v
}

func sigTail(s string) string {
	s = strings.ToLower(s)
	var out []rune
	for _, r := range s {
		if (r >= 'a' && r <= 'z') || r == '-' {
			out = append(out, r)
		} else if len(out) > 0 && out[len(out)-1] != '_' {
			out = append(out, '_')
		}
		if len(out) > 40 {
			break
		}
	}
	return string(out)
}

func TestC17Messages(t *testing.T) { h.Run(t, "C17", "messages", genMsg, judgeMsg) }

// ------------------------------------- (b) struct tags against dictionaries

type tagCase struct {
	Struct string `json:"struct"`
	Field  string `json:"field"`
	GoType string `json:"goType"`
	AVP    string `json:"avp"`
}

func collectTags() ([]tagCase, error) {
	src := os.Getenv("VERIF_SRC")
	if src == "" {
		return nil, fmt.Errorf("VERIF_SRC not set")
	}
	dir := filepath.Join(src, "ccs_diameter", "datatype")
	fset := token.NewFileSet()
	pkgs, err := parser.ParseDir(fset, dir, nil, 0)
	if err != nil {
		return nil, err
	}
	var out []tagCase
	for _, p := range pkgs {
		for _, f := range p.Files {
			ast.Inspect(f, func(n ast.Node) bool {
				ts, ok := n.(*ast.TypeSpec)
				if !ok {
					return true
				}
				stt, ok := ts.Type.(*ast.StructType)
				if !ok {
					return true
				}
				for _, fld := range stt.Fields.List {
					if fld.Tag == nil || len(fld.Names) == 0 {
						continue
					}
					tag, _ := strconv.Unquote(fld.Tag.Value)
					name := reflect.StructTag(tag).Get("avp")
					if name == "" {
						continue
					}
					var tb bytes.Buffer
					_ = printExpr(&tb, fld.Type)
					out = append(out, tagCase{ts.Name.Name, fld.Names[0].Name, tb.String(), name})
				}
				return true
			})
		}
	}
	sort.Slice(out, func(i, j int) bool { return out[i].Struct+out[i].Field < out[j].Struct+out[j].Field })
	return out, nil
}

func printExpr(b *bytes.Buffer, e ast.Expr) error {
	switch x := e.(type) {
	case *ast.StarExpr:
		b.WriteString("*")
		return printExpr(b, x.X)
	case *ast.SelectorExpr:
		b.WriteString(x.Sel.Name)
	case *ast.Ident:
		b.WriteString(x.Name)
	default:
		b.WriteString("?")
	}
	return nil
}

// Go field type -> dictionary data type name
func wantDictType(goType string, enums map[string]bool, structs map[string]bool) string {
	if strings.HasPrefix(goType, "*") {
		if structs[goType[1:]] {
			return "Grouped"
		}
		return wantDictType(goType[1:], enums, structs)
	}
	switch goType {
	case "Unsigned32", "Unsigned64", "Integer32", "Integer64", "UTF8String", "OctetString", "DiameterIdentity", "Time", "Grouped", "Enumerated", "IPFilterRule", "Address", "DiameterURI", "Float32", "Float64":
		return goType
	}
	if enums[goType] {
		return "Enumerated"
	}
	if structs[goType] {
		return "Grouped"
	}
	return "?" + goType
}

type xmlDict struct {
	Apps []struct {
		ID   string `xml:"id,attr"`
		AVPs []struct {
			Name   string `xml:"name,attr"`
			Code   string `xml:"code,attr"`
			Vendor string `xml:"vendor-id,attr"`
			Data   struct {
				Type string `xml:"type,attr"`
			} `xml:"data"`
		} `xml:"avp"`
	} `xml:"application"`
}

func TestC17Dictionary(t *testing.T) {
	r := h.NewRecorder("C17", "dictionary")
	tags, err := collectTags()
	if err != nil {
		t.Fatalf("HARNESS: %v", err)
	}
	enums, structs := map[string]bool{}, map[string]bool{}
	for _, tc := range tags {
		structs[tc.Struct] = true
	}
	// named enumerations: types of the datatype package whose kind is int32
	for _, ty := range []interface{}{cdt.RequestedAction(0), cdt.CcRequestType(0), cdt.RequestSubType(0), cdt.SubscriptionIdType(0), cdt.FinalUnitAction(0),
		cdt.CCUnitType(0), cdt.ChargeReasonCode(0), cdt.TerminationCause(0), cdt.MultipleServicesIndicator(0), cdt.CcSessionFailover(0), cdt.LowBalanceIndication(0)} {
		enums[reflect.TypeOf(ty).Name()] = true
	}
	// independent XML parse of both dictionaries
	type def struct{ code, vendor, typ, where string }
	byName := map[string][]def{}
	byCode := map[string]map[string]bool{}
	for which, text := range map[string]string{"rate": cdict.RateDictionary, "abmf": cdict.AbmfDictionary} {
		var xd xmlDict
		if err := xml.Unmarshal([]byte(text), &xd); err != nil {
			t.Fatalf("HARNESS: dictionary %s does not parse: %v", which, err)
		}
		for _, app := range xd.Apps {
			for _, a := range app.AVPs {
				byName[a.Name] = append(byName[a.Name], def{a.Code, a.Vendor, a.Data.Type, which})
				k := a.Code + "/" + a.Vendor
				if byCode[k] == nil {
					byCode[k] = map[string]bool{}
				}
				byCode[k][a.Name] = true
			}
		}
	}
	consts := codeConstants()
	h.Enum(t, r, func(yield func(tagCase) bool) {
		for _, tc := range tags {
			if !yield(tc) {
				return
			}
		}
		// dictionary-level cases: one per AVP name defined
		names := make([]string, 0, len(byName))
		for n := range byName {
			names = append(names, n)
		}
		sort.Strings(names)
		for _, n := range names {
			if !yield(tagCase{Struct: "(dictionary)", AVP: n}) {
				return
			}
		}
	}, func(tc tagCase) *h.Verdict {
		v := &h.Verdict{NonTrivial: true}
		if tc.Struct == "(dictionary)" {
			v.Label("dictionary-avp")
			defs := byName[tc.AVP]
			for _, d := range defs[1:] {
				if d.code != defs[0].code || d.typ != defs[0].typ {
					return v.Failf("avp-defined-twice/"+tc.AVP, "AVP %q is defined as code %s type %s (%s dictionary) and as code %s type %s (%s dictionary)", tc.AVP, defs[0].code, defs[0].typ, defs[0].where, d.code, d.typ, d.where)
				}
			}
			k := defs[0].code + "/" + defs[0].vendor
			if len(byCode[k]) > 1 {
				var ns []string
				for n := range byCode[k] {
					ns = append(ns, n)
				}
				sort.Strings(ns)
				return v.Failf("avp-code-shared/"+strings.Join(ns, "+"), "AVP code %s (vendor %q) is shared by %v", defs[0].code, defs[0].vendor, ns)
			}
			norm := strings.ToLower(strings.ReplaceAll(tc.AVP, "-", ""))
			if _, exact := byName[strings.ReplaceAll(tc.AVP, "-", "")]; exact && strings.Contains(tc.AVP, "-") {
				norm = "" // an AVP of exactly the constant's (undashed) name exists: the constant belongs to that one
			}
			if c, ok := consts[norm]; ok && fmt.Sprint(c) != defs[0].code {
				return v.Failf("code-constant/"+tc.AVP, "constant for %q in ccs_diameter/code is %d, the dictionary defines code %s", tc.AVP, c, defs[0].code)
			}
			return v
		}
		v.Label("struct-tag")
		a, err := dict.Default.FindAVP(uint32(ccode.Re_interface), tc.AVP)
		if err != nil {
			return v.Failf("avp-undefined/"+tc.AVP, "%s.%s: avp:%q is not defined in the loaded dictionaries: %v", tc.Struct, tc.Field, tc.AVP, err)
		}
		want := wantDictType(tc.GoType, enums, structs)
		got := a.Data.TypeName
		if want == "OctetString" && got == "UTF8String" {
			got = want // RFC 6733 4.3: UTF8String is derived from the OctetString basic format
		}
		if got != want {
			return v.Failf("avp-type/"+tc.AVP, "%s.%s has Go type %s (dictionary type %s expected), the dictionary defines %q as %s", tc.Struct, tc.Field, tc.GoType, want, tc.AVP, got)
		}
		return v
	}, true)
}

// codeConstants: name (lower case, no dashes) -> value, from ccs_diameter/code via go/parser + the compiled constants for a few.
func codeConstants() map[string]int {
	out := map[string]int{}
	src := os.Getenv("VERIF_SRC")
	fset := token.NewFileSet()
	f, err := parser.ParseFile(fset, filepath.Join(src, "ccs_diameter", "code", "code.go"), nil, 0)
	if err != nil {
		return out
	}
	for _, d := range f.Decls {
		gd, ok := d.(*ast.GenDecl)
		if !ok || gd.Tok != token.CONST {
			continue
		}
		iotaBase, hasIota := 0, false
		for i, sp := range gd.Specs {
			vs := sp.(*ast.ValueSpec)
			if len(vs.Values) == 1 {
				if be, ok := vs.Values[0].(*ast.BinaryExpr); ok {
					if id, ok := be.X.(*ast.Ident); ok && id.Name == "iota" {
						if lit, ok := be.Y.(*ast.BasicLit); ok {
							n, _ := strconv.Atoi(lit.Value)
							iotaBase, hasIota = n-i, true
						}
					}
				} else if lit, ok := vs.Values[0].(*ast.BasicLit); ok {
					n, _ := strconv.Atoi(lit.Value)
					out[strings.ToLower(strings.ReplaceAll(vs.Names[0].Name, "_", ""))] = n
					continue
				}
			}
			if hasIota {
				out[strings.ToLower(vs.Names[0].Name)] = iotaBase + i
			}
		}
	}
	return out
}
