// Engine diam: the harness's own Diameter client against the real rating and
// account-balance servers (C07, C08) and message round trips (C17).
package diam

import (
	"fmt"
	"strconv"
	"sync"
	"time"

	"github.com/fiorix/go-diameter/diam"
	"github.com/fiorix/go-diameter/diam/avp"
	"github.com/fiorix/go-diameter/diam/datatype"
	"github.com/fiorix/go-diameter/diam/dict"
	"github.com/fiorix/go-diameter/diam/sm"
)

// Peer is one persistent connection to a server, answers correlated by hop-by-hop id.
type Peer struct {
	conn diam.Conn
	mu   sync.Mutex
	wait map[uint32]chan *diam.Message
}

func Dial(port int, pemF, keyF string, answers ...string) (*Peer, error) {
	p := &Peer{wait: map[uint32]chan *diam.Message{}}
	cfg := &sm.Settings{OriginHost: "verif-client", OriginRealm: "verif", VendorID: 13, ProductName: "verif", FirmwareRevision: 1,
		OriginStateID: datatype.Unsigned32(time.Now().Unix()), HostIPAddresses: []datatype.Address{datatype.Address("127.0.0.1")}}
	mux := sm.New(cfg)
	h := func(c diam.Conn, m *diam.Message) {
		p.mu.Lock()
		ch := p.wait[m.Header.HopByHopID]
		p.mu.Unlock()
		if ch != nil {
			select {
			case ch <- m:
			default:
			}
		}
	}
	for _, a := range answers {
		mux.HandleFunc(a, h)
	}
	cli := &sm.Client{Dict: dict.Default, Handler: mux, MaxRetransmits: 1, RetransmitInterval: time.Second, EnableWatchdog: false,
		AuthApplicationID: []*diam.AVP{diam.NewAVP(avp.AuthApplicationID, avp.Mbit, 0, datatype.Unsigned32(4))}}
	c, err := cli.DialNetworkTLS("tcp", "127.0.0.1:"+strconv.Itoa(port), pemF, keyF)
	if err != nil {
		return nil, err
	}
	p.conn = c
	return p, nil
}

func (p *Peer) Close() { p.conn.Close() }

// Do sends a request and waits for its answer.
func (p *Peer) Do(m *diam.Message, wait time.Duration) (*diam.Message, error) {
	ch := make(chan *diam.Message, 1)
	p.mu.Lock()
	p.wait[m.Header.HopByHopID] = ch
	p.mu.Unlock()
	defer func() {
		p.mu.Lock()
		delete(p.wait, m.Header.HopByHopID)
		p.mu.Unlock()
	}()
	if _, err := m.WriteTo(p.conn); err != nil {
		return nil, fmt.Errorf("write: %w", err)
	}
	select {
	case a := <-ch:
		return a, nil
	case <-time.After(wait):
		return nil, nil
	}
}
