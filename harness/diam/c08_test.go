package diam

import (
	"fmt"
	"math"
	"math/big"
	"sort"
	"strconv"
	"strings"
	"sync"
	"testing"
	"time"

	"github.com/fiorix/go-diameter/diam"
	"github.com/fiorix/go-diameter/diam/datatype"
	"github.com/fiorix/go-diameter/diam/dict"
	"pgregory.net/rapid"

	ccode "github.com/free5gc/chf/ccs_diameter/code"
	cdt "github.com/free5gc/chf/ccs_diameter/datatype"
	"github.com/free5gc/chf/verifapi"
	"github.com/free5gc/openapi/models"
	"verifharness/h"
)

type SUR struct {
	SubType  int    `json:"subType"` // 0 AOC, 1 RESERVE, 2 DEBIT, 3 RELEASE, 9 out of range
	Consumed uint32 `json:"consumed"`
	Quota    uint32 `json:"quota"`
	Rel      string `json:"rel,omitempty"` // cost-1 | cost | cost+1: value relative to the unit cost
	Unknown  bool   `json:"unknown,omitempty"`
	Omit     bool   `json:"omit,omitempty"`    // the optional ConsumedUnits / MonetaryQuota AVPs are not sent at all (= 0)
	OtherID  int    `json:"otherId,omitempty"` // 0: END_USER_IMSI; n: Subscription-Id-Type n-1 (E.164, -, SIP URI, NAI, private) with the same digits - names no subscriber
	DBFail   bool   `json:"dbFail,omitempty"`  // the tariff lookup of this request fails in the database
}

type C08Case struct {
	Cost string `json:"cost"` // stored unit-cost string
	Reqs []SUR  `json:"reqs"`
}

var costStrings = []string{"1", "2", "7", "10", "999", "4294967295", "0", "0.5", "1.5", "0.25", "2.50", "10.0", "", "abc", "1.2.3", "-1", " 5", "1e3", "00", "0.0", " ", "\t", "  \n", "5 ", " 5 "}

// genCost builds a stored unit-cost string: the fixed list above, or a decimal numeral constructed from an
// integer part (with or without leading zeros), an optional point and 0-15 fraction digits (all zero = an
// integer written with a point), or short text over the alphabet such strings are made of.
func genCost(t *rapid.T) string {
	ints := []uint64{1, 2, 3, 9, 10, 12, 99, 100, 250, 255, 256, 1000, 65535, 65536, 999999, 1 << 24, 1<<31 - 1, 1 << 31, 1<<32 - 1}
	intPart := func() string {
		var n uint64
		if rapid.Bool().Draw(t, "poolInt") {
			n = rapid.SampledFrom(ints).Draw(t, "int")
		} else {
			n = rapid.Uint64Range(0, 1<<32-1).Draw(t, "intAny")
		}
		return strings.Repeat("0", rapid.SampledFrom([]int{0, 0, 0, 1, 3}).Draw(t, "lead")) + strconv.FormatUint(n, 10)
	}
	switch rapid.IntRange(0, 9).Draw(t, "costKind") {
	case 0, 1, 2:
		return rapid.SampledFrom(costStrings).Draw(t, "cost")
	case 3, 4:
		return intPart()
	case 5, 6: // an integer written with a decimal point
		return intPart() + "." + strings.Repeat("0", rapid.IntRange(0, 15).Draw(t, "zeros"))
	case 7, 8: // a fraction
		k := rapid.SampledFrom([]int{1, 1, 2, 2, 3, 4, 6, 8, 9, 10, 11, 12, 15, 18}).Draw(t, "fracLen")
		f := rapid.StringOfN(rapid.RuneFrom([]rune("0123456789")), k, k, k).Draw(t, "frac")
		ip := "0"
		if rapid.Bool().Draw(t, "withInt") {
			ip = intPart()
		}
		return ip + "." + f
	}
	return rapid.StringOfN(rapid.RuneFrom([]rune("0123456789.-+eE ,x\t٣")), 0, 6, -1).Draw(t, "text")
}

func genC08(t *rapid.T) C08Case {
	c := C08Case{Cost: genCost(t)}
	n := rapid.IntRange(1, 8).Draw(t, "n")
	for i := 0; i < n; i++ {
		r := SUR{SubType: rapid.SampledFrom([]int{1, 1, 1, 2, 2, 2, 0, 3, 9}).Draw(t, "subType")}
		switch rapid.IntRange(0, 6).Draw(t, "valClass") {
		case 0:
		case 1:
			r.Consumed, r.Quota = 1, 1
		case 2:
			r.Rel = rapid.SampledFrom([]string{"cost-1", "cost", "cost+1"}).Draw(t, "rel")
		case 3:
			r.Consumed, r.Quota = 1<<16, 1<<16
		case 4:
			r.Consumed, r.Quota = 1<<32-1, 1<<32-1
		default:
			r.Consumed = rapid.Uint32Range(0, 100000).Draw(t, "consumed")
			r.Quota = rapid.Uint32Range(0, 100000).Draw(t, "quota")
		}
		r.Unknown = rapid.IntRange(0, 9).Draw(t, "unknown") == 0
		if rapid.IntRange(0, 7).Draw(t, "otherId") == 0 {
			r.OtherID = 1 + rapid.SampledFrom([]int{0, 2, 3, 4}).Draw(t, "idType")
		}
		r.Omit = rapid.IntRange(0, 4).Draw(t, "omit") == 0
		r.DBFail = !r.Unknown && r.OtherID == 0 && rapid.IntRange(0, 9).Draw(t, "dbFail") == 0
		c.Reqs = append(c.Reqs, r)
	}
	return c
}

// decimal value of the stored string, if it denotes a number (digits with at most one dot)
func decimalOf(s string) (*big.Rat, bool) {
	if s == "" || strings.Count(s, ".") > 1 {
		return nil, false
	}
	for _, r := range s {
		if (r < '0' || r > '9') && r != '.' {
			return nil, false
		}
	}
	if s == "." {
		return nil, false
	}
	r, ok := new(big.Rat).SetString(s)
	return r, ok
}

var ratingPeer *Peer

var omitNext bool

// idTypeNext: the next request carries its digits under this Subscription-Id-Type
var idTypeNext = cdt.END_USER_IMSI

func sendSUR(p *Peer, supi string, rg uint32, subType int, consumed, quota uint32, wait time.Duration) (*cdt.ServiceUsageResponse, error) {
	sur := &cdt.ServiceUsageRequest{SessionId: "verif-sur", OriginHost: "verif-client", OriginRealm: "verif", DestinationRealm: "go-diameter", DestinationHost: "server",
		UserName: datatype.OctetString("CHF"), ActualTime: datatype.Time(time.Now()),
		SubscriptionId: &cdt.SubscriptionId{SubscriptionIdType: idTypeNext, SubscriptionIdData: datatype.UTF8String(supi[5:])},
		ServiceRating:  &cdt.ServiceRating{ServiceIdentifier: datatype.Unsigned32(rg), RequestSubType: cdt.RequestSubType(subType), ConsumedUnits: datatype.Unsigned32(consumed), MonetaryQuota: datatype.Unsigned32(quota)}}
	msg := diam.NewRequest(ccode.ServiceUsageMessage, ccode.Re_interface, dict.Default)
	if err := msg.Marshal(sur); err != nil {
		return nil, fmt.Errorf("HARNESS marshal: %w", err)
	}
	idTypeNext = cdt.END_USER_IMSI
	if omitNext {
		omitNext = false
		stripOptionalRatingAVPs(msg)
	}
	ans, err := p.Do(msg, wait)
	if err != nil {
		return nil, err
	}
	if ans == nil {
		return nil, nil
	}
	var sua cdt.ServiceUsageResponse
	if err := ans.Unmarshal(&sua); err != nil {
		return nil, fmt.Errorf("answer unparsable: %w", err)
	}
	return &sua, nil
}

func costClass(s string) string {
	d, ok := decimalOf(s)
	switch {
	case !ok:
		return "malformed"
	case d.Sign() == 0:
		return "zero"
	case !d.IsInt():
		return "fraction"
	case strings.Contains(s, "."):
		return "integer-with-dot"
	}
	return "integer"
}

func judgeC08(c C08Case) *h.Verdict {
	v := &h.Verdict{}
	cls := costClass(c.Cost)
	v.Label("cost:" + cls)
	if cls != "integer" || c.Cost != "1" {
		v.NonTrivial = true
	}
	if ratingPeer == nil {
		p, err := Dial(env.RfPort, env.PemFile, env.KeyFile, "SUA")
		if err != nil {
			return v.Failf("HARNESS-dial", "%v", err)
		}
		ratingPeer = p
	}
	supi := env.NewSupi()
	env.SetAccount(supi, 1, 1000000, c.Cost)
	dec, isNum := decimalOf(c.Cost)
	for step, r := range c.Reqs {
		consumed, quota := r.Consumed, r.Quota
		if isNum && dec.IsInt() && dec.Sign() > 0 && dec.Num().IsUint64() && dec.Num().Uint64() < 1<<31 {
			cost := uint32(dec.Num().Uint64())
			switch r.Rel {
			case "cost-1":
				consumed, quota = cost-1, cost-1
			case "cost":
				consumed, quota = cost, cost
			case "cost+1":
				consumed, quota = cost+1, cost+1
			}
		}
		rg, who := uint32(1), supi
		if r.Unknown {
			rg = 7
		}
		wait := 2 * time.Second
		if r.Unknown || r.OtherID != 0 {
			wait = 100 * time.Millisecond
		}
		if r.OtherID != 0 {
			idTypeNext = cdt.SubscriptionIdType(r.OtherID - 1)
		}
		if r.Omit {
			omitNext = true
			consumed, quota = 0, 0 // an absent optional member counts as 0
		}
		if r.DBFail {
			// the tariff cannot be read: the server may stay silent; if it answers, it prices with the stored tariff
			env.FM.FailNextFind(1)
			wait = 150 * time.Millisecond
		}
		sua, err := sendSUR(ratingPeer, who, rg, r.SubType, consumed, quota, wait)
		env.FM.FailNextFind(0)
		if r.Omit {
			v.Label("optional-avps-omitted")
		}
		desc := fmt.Sprintf("step %d: SUR subtype %d consumed %d quota %d, stored unit cost %q", step, r.SubType, consumed, quota, c.Cost)
		if err != nil {
			ratingPeer.Close()
			ratingPeer = nil
			return v.Failf("connection-lost/cost:"+cls, "%s: %v", desc, err)
		}
		if r.OtherID != 0 {
			// the digits of a known subscriber under another identifier type name no subscriber: whatever the server does
			// with such a request, it must not rate it from somebody's tariff
			v.Label("other-subscription-id-type")
			if sua != nil && sua.ServiceRating != nil && (sua.ServiceRating.AllowedUnits != 0 || sua.ServiceRating.Price != 0 ||
				(sua.ServiceRating.MonetaryTariff != nil && sua.ServiceRating.MonetaryTariff.RateElement != nil && sua.ServiceRating.MonetaryTariff.RateElement.UnitCost != nil && sua.ServiceRating.MonetaryTariff.RateElement.UnitCost.ValueDigits != 0)) {
				return v.Failf("rated-without-subscriber", "%s under Subscription-Id-Type %d (not an IMSI: names no subscriber) was rated: allowed %d, price %d", desc, r.OtherID-1, sua.ServiceRating.AllowedUnits, sua.ServiceRating.Price)
			}
			continue
		}
		if r.Unknown {
			continue
		}
		if r.DBFail {
			v.NT("tariff-lookup-fails-in-the-database")
			if sua == nil || sua.ServiceRating == nil {
				continue
			}
		}
		if sua == nil {
			// no answer: is the server still answering at all (same and fresh connection)?
			ratingPeer.Close()
			ratingPeer = nil
			return v.Failf("no-answer/cost:"+cls, "%s: no answer within 2 s", desc)
		}
		if sua.ServiceRating == nil {
			return v.Failf("answer-without-rating", "%s: answer carries no Service-Rating", desc)
		}
		if !isNum || dec.Sign() <= 0 {
			continue // pricing clauses apply to positive numeric tariffs only
		}
		price := new(big.Rat)
		switch r.SubType {
		case 2: // DEBIT: price = consumed x cost
			price.Mul(new(big.Rat).SetUint64(uint64(consumed)), dec)
			if !price.IsInt() || price.Cmp(new(big.Rat).SetUint64(1<<32-1)) > 0 {
				v.Label("skipped:price-not-representable")
				continue
			}
			if uint64(sua.ServiceRating.Price) != price.Num().Uint64() {
				return v.Failf("debit-price/cost:"+cls, "%s: Price %d, exact consumed x unit cost = %s", desc, sua.ServiceRating.Price, price.RatString())
			}
			v.Label("priced:debit")
		case 1: // RESERVE: allowed = floor(quota / cost), price = allowed x cost <= quota
			q := new(big.Rat).Quo(new(big.Rat).SetUint64(uint64(quota)), dec)
			allowed := new(big.Int).Quo(q.Num(), q.Denom())
			price.Mul(new(big.Rat).SetInt(allowed), dec)
			if !price.IsInt() {
				v.Label("skipped:price-not-integer")
				continue
			}
			if !allowed.IsUint64() || uint64(sua.ServiceRating.AllowedUnits) != allowed.Uint64() {
				return v.Failf("allowed-units/cost:"+cls, "%s: AllowedUnits %d, floor(quota / unit cost) = %s", desc, sua.ServiceRating.AllowedUnits, allowed)
			}
			if uint64(sua.ServiceRating.Price) != price.Num().Uint64() || uint64(sua.ServiceRating.Price) > uint64(quota) {
				return v.Failf("reserve-price/cost:"+cls, "%s: Price %d, allowed x unit cost = %s (quota %d)", desc, sua.ServiceRating.Price, price.RatString(), quota)
			}
			v.Label("priced:reserve")
		}
	}
	// the server must still answer a well-formed request on the same and on a fresh connection
	okSupi := env.NewSupi()
	env.SetAccount(okSupi, 1, 1000, "3")
	for _, fresh := range []bool{false, true} {
		p := ratingPeer
		if fresh {
			var err error
			p, err = Dial(env.RfPort, env.PemFile, env.KeyFile, "SUA")
			if err != nil {
				return v.Failf("server-stopped/cost:"+cls, "after requests against unit cost %q the rating server accepts no new connection: %v", c.Cost, err)
			}
		}
		sua, err := sendSUR(p, okSupi, 1, 2, 5, 0, 2*time.Second)
		if fresh {
			p.Close()
		}
		if err != nil || sua == nil || sua.ServiceRating == nil || sua.ServiceRating.Price != 15 {
			return v.Failf("server-stopped/cost:"+cls, "after requests against unit cost %q a well-formed request (fresh connection: %v) is no longer answered correctly: %v %v", c.Cost, fresh, sua, err)
		}
	}
	return v
}

func TestC08RatingServer(t *testing.T) { h.Run(t, "C08", "pricing", genC08, judgeC08) }

// Agreement: the unit cost the server applies equals the unit cost the CHF
// decodes from that server's tariff (observed on the real CHF path).
type agreeCase struct {
	Cost string `json:"cost"`
}

func judgeAgree(c agreeCase) *h.Verdict {
	v := &h.Verdict{}
	cls := costClass(c.Cost)
	v.Label("cost:" + cls)
	v.NonTrivial = c.Cost != "1"
	supi := env.NewSupi()
	env.SetAccount(supi, 1, 1_000_000_000, c.Cost)
	if ratingPeer == nil {
		p, err := Dial(env.RfPort, env.PemFile, env.KeyFile, "SUA")
		if err != nil {
			return v.Failf("HARNESS-dial", "%v", err)
		}
		ratingPeer = p
	}
	// what the server applies per unit: the price of 1 unit and of several units (N x the same unit cost)
	applied := uint32(0)
	prices := map[uint32]uint32{}
	for _, n := range []uint32{1, 2, 3, 10, 1000} {
		sua, err := sendSUR(ratingPeer, supi, 1, 2, n, 0, 2*time.Second)
		if err != nil || sua == nil || sua.ServiceRating == nil {
			if err != nil {
				ratingPeer.Close()
				ratingPeer = nil
			}
			return v.Failf("no-answer/cost:"+cls, "DEBIT of %d units against unit cost %q: %v %v", n, c.Cost, sua, err)
		}
		prices[n] = uint32(sua.ServiceRating.Price)
		if n == 1 {
			applied = prices[1]
		}
	}
	now := time.Now()
	nf := &models.ChfConvergedChargingNfIdentification{NFName: "smf", NodeFunctionality: "SMF"}
	_, loc, pd := verifapi.Create(models.ChfConvergedChargingChargingDataRequest{SubscriberIdentifier: supi, ChargingId: 1, NfConsumerIdentification: nf, InvocationTimeStamp: &now, InvocationSequenceNumber: 1})
	if pd != nil {
		return v.Failf("HARNESS-create", "%+v", pd)
	}
	ref := loc[strings.LastIndex(loc, "/")+1:]
	_, pd2 := verifapi.Update(models.ChfConvergedChargingChargingDataRequest{SubscriberIdentifier: supi, ChargingId: 1, NfConsumerIdentification: nf, InvocationTimeStamp: &now, InvocationSequenceNumber: 2,
		MultipleUnitUsage: []models.ChfConvergedChargingMultipleUnitUsage{{RatingGroup: 1, RequestedUnit: &models.RequestedUnit{TotalVolume: 1},
			UsedUnitContainer: []models.ChfConvergedChargingUsedUnitContainer{{QuotaManagementIndicator: models.QuotaManagementIndicator_ONLINE_CHARGING, TotalVolume: 0, LocalSequenceNumber: 1}}}}}, ref)
	if pd2 != nil {
		return v.Failf("update-rejected/cost:"+cls, "%+v", pd2)
	}
	snap := verifapi.Snapshot(supi)
	if snap.UnitCost[1] != applied {
		return v.Failf("tariff-disagreement/cost:"+cls, "stored unit cost %q: the rating server prices 1 unit at %d, the CHF decoded unit cost %d from the server's tariff", c.Cost, applied, snap.UnitCost[1])
	}
	for _, n := range []uint32{2, 3, 10, 1000} {
		if want := uint64(n) * uint64(snap.UnitCost[1]); want < 1<<32 && uint64(prices[n]) != want {
			return v.Failf("tariff-disagreement-several-units/cost:"+cls, "stored unit cost %q: the rating server prices %d units at %d; with the unit cost %d the CHF decoded from the server's tariff they cost %d", c.Cost, n, prices[n], snap.UnitCost[1], want)
		}
	}
	return v
}

func TestC08Agreement(t *testing.T) {
	h.Run(t, "C08", "agreement", func(t *rapid.T) agreeCase {
		if rapid.IntRange(0, 3).Draw(t, "fromList") == 0 {
			return agreeCase{Cost: rapid.SampledFrom([]string{"1", "2", "7", "10", "999", "65536", "4294967295", "10.0", "2.50", "1.5", "0.5"}).Draw(t, "cost")}
		}
		return agreeCase{Cost: genCost(t)}
	}, judgeAgree)
}

// stripOptionalRatingAVPs removes ConsumedUnits and MonetaryQuota from the Service-Rating group of a SUR
// (both are optional in the dictionary; a consumer that has nothing to report does not send them).
func stripOptionalRatingAVPs(m *diam.Message) {
	for _, a := range m.AVP {
		if a.Code != ccode.ServiceRating {
			continue
		}
		g, ok := a.Data.(*diam.GroupedAVP)
		if !ok {
			continue
		}
		var kept []*diam.AVP
		for _, x := range g.AVP {
			if x.Code == ccode.ConsumedUnits || x.Code == ccode.MonetaryQuota {
				continue
			}
			kept = append(kept, x)
		}
		g.AVP = kept
		m.Header.MessageLength = uint32(m.Len())
	}
}

// Parallel: several consumers' connections rate at the same time, each subscriber with a tariff of its own.  Every
// answer must price with - and carry - the tariff of its own subscriber, whatever the other connections are doing.
type parCase struct {
	Costs  []int `json:"costs"`  // unit cost of subscriber i (one connection each)
	Rounds int   `json:"rounds"` // requests per connection
}

func plainSUR(p *Peer, supi string, subType int, consumed, quota uint32) (*cdt.ServiceUsageResponse, error) {
	sur := &cdt.ServiceUsageRequest{SessionId: "verif-par", OriginHost: "verif-client", OriginRealm: "verif", DestinationRealm: "go-diameter", DestinationHost: "server",
		UserName: datatype.OctetString("CHF"), ActualTime: datatype.Time(time.Now()),
		SubscriptionId: &cdt.SubscriptionId{SubscriptionIdType: cdt.END_USER_IMSI, SubscriptionIdData: datatype.UTF8String(supi[5:])},
		ServiceRating:  &cdt.ServiceRating{ServiceIdentifier: 1, RequestSubType: cdt.RequestSubType(subType), ConsumedUnits: datatype.Unsigned32(consumed), MonetaryQuota: datatype.Unsigned32(quota)}}
	msg := diam.NewRequest(ccode.ServiceUsageMessage, ccode.Re_interface, dict.Default)
	if err := msg.Marshal(sur); err != nil {
		return nil, err
	}
	ans, err := p.Do(msg, 3*time.Second)
	if err != nil || ans == nil {
		return nil, fmt.Errorf("no answer (%v)", err)
	}
	var sua cdt.ServiceUsageResponse
	if err := ans.Unmarshal(&sua); err != nil {
		return nil, err
	}
	return &sua, nil
}

func judgePar(c parCase) *h.Verdict {
	v := &h.Verdict{NonTrivial: len(c.Costs) >= 2}
	v.Label(fmt.Sprintf("connections:%d", len(c.Costs)))
	type res struct{ sig, msg string }
	out := make([]res, len(c.Costs))
	var wg sync.WaitGroup
	start := make(chan struct{})
	for i, cost := range c.Costs {
		supi := env.NewSupi()
		env.SetAccount(supi, 1, 1_000_000, fmt.Sprint(cost))
		p, err := Dial(env.RfPort, env.PemFile, env.KeyFile, "SUA")
		if err != nil {
			return v.Failf("HARNESS-dial", "%v", err)
		}
		wg.Add(1)
		go func(i, cost int, supi string, p *Peer) {
			defer wg.Done()
			defer p.Close()
			<-start
			for k := 0; k < c.Rounds; k++ {
				consumed := uint32(1 + (k*7+i)%50)
				sub := 2 - k%2 // debit, reserve, debit, ...
				quota := consumed*uint32(cost) + uint32(k%3)
				sua, err := plainSUR(p, supi, sub, consumed, quota)
				if err != nil || sua.ServiceRating == nil {
					out[i] = res{"no-answer/parallel", fmt.Sprintf("connection %d (unit cost %d), request %d: %v", i, cost, k, err)}
					return
				}
				sr := sua.ServiceRating
				digits := int64(-1)
				if sr.MonetaryTariff != nil && sr.MonetaryTariff.RateElement != nil && sr.MonetaryTariff.RateElement.UnitCost != nil {
					digits = int64(float64(sr.MonetaryTariff.RateElement.UnitCost.ValueDigits) * math.Pow10(int(sr.MonetaryTariff.RateElement.UnitCost.Exponent)))
				}
				if digits != int64(cost) {
					out[i] = res{"foreign-tariff/parallel", fmt.Sprintf("connection %d, request %d: the answer carries unit cost %d, the subscriber's tariff is %d (costs of the connections: %v)", i, k, digits, cost, c.Costs)}
					return
				}
				if sub == 2 && uint32(sr.Price) != consumed*uint32(cost) {
					out[i] = res{"debit-price/parallel", fmt.Sprintf("connection %d, request %d: %d units at unit cost %d priced %d (costs of the connections: %v)", i, k, consumed, cost, sr.Price, c.Costs)}
					return
				}
				if want := quota / uint32(cost); sub == 1 && (uint32(sr.AllowedUnits) != want || uint32(sr.Price) != want*uint32(cost)) {
					out[i] = res{"allowed-units/parallel", fmt.Sprintf("connection %d, request %d: quota %d at unit cost %d allowed %d units priced %d (costs of the connections: %v)", i, k, quota, cost, sr.AllowedUnits, sr.Price, c.Costs)}
					return
				}
			}
		}(i, cost, supi, p)
	}
	close(start)
	wg.Wait()
	sort.Slice(out, func(a, b int) bool { return out[a].sig > out[b].sig })
	if out[0].sig != "" {
		return v.Failf(out[0].sig, "%s", out[0].msg)
	}
	return v
}

func TestC08Parallel(t *testing.T) {
	h.Run(t, "C08", "parallel", func(t *rapid.T) parCase {
		n := rapid.IntRange(2, 6).Draw(t, "connections")
		c := parCase{Rounds: rapid.IntRange(10, h.Scale(60, 300)).Draw(t, "rounds")}
		for i := 0; i < n; i++ {
			c.Costs = append(c.Costs, rapid.SampledFrom([]int{1, 2, 3, 7, 12, 100, 999}).Draw(t, "cost"))
		}
		return c
	}, judgePar)
}

// Tariffs: the rating server prices against thousands of different stored unit costs, then against the first ones
// again; the price of a request depends on the stored unit cost only, not on how many other tariffs the server has
// seen in between.
type tariffsCase struct {
	N     int `json:"n"`     // distinct unit costs
	Again int `json:"again"` // how many of the first ones are priced again at the end
	Units int `json:"units"`
	Form  int `json:"form"` // 0: 1..N written k; 1: written k.0; 2: k and k.00 in turn
}

func tariffText(form, k int) (string, *big.Rat) {
	// (whole numbers only: fractional unit costs are truncated by server and CHF alike - a known finding of unit pricing)
	switch {
	case form == 1:
		return fmt.Sprintf("%d.0", k), big.NewRat(int64(k), 1)
	case form == 2 && k%2 == 0:
		return fmt.Sprintf("%d.00", k), big.NewRat(int64(k), 1)
	}
	return fmt.Sprint(k), big.NewRat(int64(k), 1)
}

func judgeTariffs(c tariffsCase) *h.Verdict {
	v := &h.Verdict{NonTrivial: true}
	if ratingPeer == nil {
		p, err := Dial(env.RfPort, env.PemFile, env.KeyFile, "SUA")
		if err != nil {
			return v.Failf("HARNESS-dial", "%v", err)
		}
		ratingPeer = p
	}
	supi := env.NewSupi()
	units := uint32(c.Units)
	price := func(k int, when string) bool {
		text, dec := tariffText(c.Form, k)
		env.SetAccount(supi, 1, 1_000_000_000, text)
		sua, err := sendSUR(ratingPeer, supi, 1, 2, units, 0, 2*time.Second)
		if err != nil || sua == nil || sua.ServiceRating == nil {
			if err != nil {
				ratingPeer.Close()
				ratingPeer = nil
			}
			v.Failf("no-answer/many-tariffs", "%s: DEBIT of %d units against stored unit cost %q: %v %v", when, units, text, sua, err)
			return false
		}
		want := new(big.Rat).Mul(dec, new(big.Rat).SetUint64(uint64(units)))
		if uint64(sua.ServiceRating.Price) != want.Num().Uint64() {
			v.Failf("debit-price/depends-on-tariffs-seen-before", "%s: DEBIT of %d units against stored unit cost %q is priced %d, exact %s", when, units, text, sua.ServiceRating.Price, want.RatString())
			return false
		}
		return true
	}
	for k := 1; k <= c.N; k++ {
		if !price(k, fmt.Sprintf("tariff number %d of %d", k, c.N)) {
			return v
		}
	}
	for k := 1; k <= c.Again; k++ {
		if !price(k, fmt.Sprintf("tariff number %d priced again after %d different ones", k, c.N)) {
			return v
		}
	}
	if c.N > 16384 {
		v.Label("distinct-tariffs>16384-then-the-first-again")
	}
	if c.N > 256 {
		v.Label("distinct-tariffs>256-then-the-first-again")
	}
	return v
}

func TestC08Tariffs(t *testing.T) {
	h.Run(t, "C08", "tariffs", func(t *rapid.T) tariffsCase {
		return tariffsCase{N: rapid.IntRange(16500, h.Scale(18000, 70000)).Draw(t, "n"), Again: rapid.IntRange(300, 600).Draw(t, "again"),
			Units: rapid.IntRange(1, 50).Draw(t, "units"), Form: rapid.IntRange(0, 2).Draw(t, "form")}
	}, judgeTariffs)
}
