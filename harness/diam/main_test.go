package diam

import (
	"fmt"
	"os"
	"testing"

	"verifharness/stackenv"
)

var env *stackenv.Env

func TestMain(m *testing.M) {
	var err error
	env, err = stackenv.Start(stackenv.Options{})
	if err != nil {
		fmt.Fprintln(os.Stderr, "HARNESS: cannot start the in-process stack:", err)
		os.Exit(2)
	}
	code := m.Run()
	env.Cleanup()
	os.Exit(code)
}
