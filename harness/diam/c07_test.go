package diam

import (
	"fmt"
	"math"
	"testing"
	"time"

	"github.com/fiorix/go-diameter/diam"
	"github.com/fiorix/go-diameter/diam/datatype"
	"github.com/fiorix/go-diameter/diam/dict"
	"pgregory.net/rapid"

	ccode "github.com/free5gc/chf/ccs_diameter/code"
	cdt "github.com/free5gc/chf/ccs_diameter/datatype"
	"verifharness/h"
	"verifharness/stackenv"
)

type CCR struct {
	Acct   int     `json:"acct"` // index into accounts; -1 unknown subscriber; -2 unknown rating group
	Action int     `json:"action"`
	Type   int     `json:"type"`
	Amount uint64  `json:"amount"`
	AmtRel string  `json:"amtRel,omitempty"` // "", bal-1, bal, bal+1: amount relative to the current balance (resolved at run time)
	Sess   string  `json:"sess"`
	Num    uint32  `json:"num"`
	Lean   bool    `json:"lean,omitempty"`   // optional AVPs that would carry the value 0 are not sent at all (Requested-Action DIRECT_DEBITING, Service-Identifier 0): an absent AVP means its default, whatever an earlier request carried
	Both   bool    `json:"both,omitempty"`   // carry requested and used service units both
	Used   *uint64 `json:"used,omitempty"`   // with Both: the used service units differ from the requested ones (a reservation and a refund state their amount as requested units, a termination debit as used units)
	IdType int     `json:"idType,omitempty"` // Subscription-Id-Type (0 E164, 1 IMSI, 2 SIP URI, 3 NAI, 4 PRIVATE); only IMSI names an account
	Fault  string  `json:"fault,omitempty"`  // the database fails during this request: "read" (the lookup returns an error) | "write-applied" (the balance is written, the write is reported as failed)
}

type C07Case struct {
	Odd    string  `json:"odd,omitempty"`    // stored balance text of one more account (requests with acct -6 go to it)
	ZeroRG bool    `json:"zeroRG,omitempty"` // the accounts' rating groups are 0, 1, 2 (and the requests carry a Service-Identifier that is not the rating group)
	BigRG  bool    `json:"bigRG,omitempty"`  // the accounts' rating groups are 2^31-1, 2^31, ... (Unsigned32 on the wire) instead of 1, 2, ...
	Bal    []int64 `json:"bal"`              // initial balance per account
	Reqs   []CCR   `json:"reqs"`
}

func genC07(t *rapid.T) C07Case {
	var c C07Case
	n := rapid.IntRange(2, 4).Draw(t, "nAcct")
	for i := 0; i < n; i++ {
		c.Bal = append(c.Bal, rapid.SampledFrom([]int64{0, 1, 2, 100, 1 << 31, 1 << 32, 1 << 62, 999}).Draw(t, "bal"))
	}
	if rapid.IntRange(0, 2).Draw(t, "odd") == 0 {
		// one more account whose stored balance is a text the server cannot take for a 64-bit balance
		c.Odd = rapid.SampledFrom([]string{"9223372036854775808", "18446744073709551615", "99999999999999999999999", " 100", "100 ", "1e3", "abc", "", "12.5", "0x10", "٣"}).Draw(t, "oddBalance")
	}
	c.BigRG = rapid.IntRange(0, 3).Draw(t, "bigRG") == 0
	c.ZeroRG = !c.BigRG && rapid.IntRange(0, 3).Draw(t, "zeroRG") == 0
	m := rapid.IntRange(1, h.Scale(20, 30)).Draw(t, "nReq")
	long := rapid.IntRange(0, 19).Draw(t, "long") == 0
	if long {
		m = h.Scale(300, 1000) // a long life of a few accounts: request numbers, totals and answer counts far beyond the short sequences
	}
	for i := 0; i < m; i++ {
		r := CCR{Acct: rapid.SampledFrom([]int{0, 0, 0, 1, 1, 2, 3, -1, -2, -4, -5}).Draw(t, "acct")}
		if r.Acct >= n || (long && r.Acct < 0) {
			r.Acct = 0 // (requests for unknown accounts cost a wait each: the long sequences do without)
		}
		if c.Odd != "" && !long && rapid.IntRange(0, 5).Draw(t, "toOdd") == 0 {
			r.Acct = -6
		}
		r.Action = rapid.SampledFrom([]int{0, 0, 0, 0, 1, 1, 2, 3}).Draw(t, "action")
		r.Type = rapid.SampledFrom([]int{1, 2, 2, 2, 3, 3, 4}).Draw(t, "type")
		switch rapid.IntRange(0, 7).Draw(t, "amtClass") {
		case 0:
			r.Amount = 0
		case 1:
			r.Amount = 1
		case 2:
			r.AmtRel = "bal-1"
		case 3:
			r.AmtRel = "bal"
		case 4:
			r.AmtRel = "bal+1"
		case 5:
			r.Amount = rapid.SampledFrom([]uint64{1 << 31, 1 << 32, 1<<63 - 1, 1 << 40}).Draw(t, "amtBig")
		default:
			r.Amount = rapid.Uint64Range(0, 5000).Draw(t, "amt")
		}
		r.Sess = rapid.SampledFrom([]string{"s1", "", "session;with;semicolons", "séssion-ü", "a-very-long-session-identifier-0123456789012345678901234567890123456789012345678901234567890123456789"}).Draw(t, "sess")
		r.Num = rapid.SampledFrom([]uint32{0, 1, 2, 77, math.MaxUint32}).Draw(t, "num")
		r.Lean = rapid.IntRange(0, 3).Draw(t, "lean") == 0
		r.Both = rapid.IntRange(0, 4).Draw(t, "both") == 0
		if r.Both && rapid.Bool().Draw(t, "usedDiffers") {
			u := rapid.SampledFrom([]uint64{0, 1, 7, 120, 500, 5000}).Draw(t, "used")
			r.Used = &u
		}
		if !long && r.Acct >= 0 && rapid.IntRange(0, 9).Draw(t, "dbFault") == 0 {
			r.Fault = rapid.SampledFrom([]string{"read", "write-applied"}).Draw(t, "fault")
		}
		r.IdType = 1
		if !long && rapid.IntRange(0, 7).Draw(t, "otherIdType") == 0 {
			r.IdType = rapid.SampledFrom([]int{0, 2, 3, 4}).Draw(t, "idType")
		}
		c.Reqs = append(c.Reqs, r)
	}
	return c
}

var abmfPeer *Peer

func judgeC07(c C07Case) *h.Verdict {
	v := &h.Verdict{}
	if abmfPeer == nil {
		p, err := Dial(env.AbmfPort, env.PemFile, env.KeyFile, "CCA")
		if err != nil {
			return v.Failf("HARNESS-dial", "%v", err)
		}
		abmfPeer = p
	}
	type acct struct {
		supi string
		rg   int64
	}
	var accts []acct
	model := map[int]int64{}
	for i, b := range c.Bal {
		// accounts 0 and 2 belong to one subscriber (different rating groups), as do 1 and 3
		a := acct{env.NewSupi(), int64(1 + i%3)}
		if c.BigRG {
			a.rg += 1<<31 - 2 // 2^31-1, 2^31, 2^31+1
			v.Label("rating-group>=2^31")
		}
		if c.ZeroRG {
			a.rg-- // 0, 1, 2
			v.Label("rating-group-0")
		}
		if i >= 2 {
			a = acct{accts[i-2].supi, accts[i-2].rg + 1}
		}
		env.SetAccount64(a.supi, a.rg, b, "1")
		accts = append(accts, a)
		model[i] = b
	}
	oddSupi := ""
	if c.Odd != "" {
		oddSupi = env.NewSupi()
		env.SetAccount64(oddSupi, 1, 0, "1")
		env.FM.SetField(stackenv.Coll, oddSupi, 1, "quota", c.Odd)
	}
	if len(c.Reqs) >= 300 {
		v.Label("sequence>=300-requests")
	}
	changes := map[int]int{}
	sawEq, sawGt, refundAfterExhaust := false, false, false
	exhausted := map[int]bool{}
	for step, r := range c.Reqs {
		supi, rg := "", int64(1)
		idx := r.Acct
		switch {
		case idx >= 0:
			supi, rg = accts[idx].supi, accts[idx].rg
		case idx == -1:
			supi = "imsi-80000" + fmt.Sprint(100000+step)
		case idx == -4:
			// an unknown subscriber whose identifier is related to a known one: the known subscriber's whole SUPI as
			// the IMSI data ("imsi-" + digits: the server's key would be imsi-imsi-...), or its digits plus one more
			supi, rg = "imsi-"+accts[0].supi, accts[0].rg
			v.Label("unknown-but-related-identifier")
		case idx == -5:
			supi, rg = accts[0].supi+"0", accts[0].rg
			v.Label("unknown-but-related-identifier")
		case idx == -6:
			supi, rg = oddSupi, 1
		default:
			supi, rg = accts[0].supi, 9
		}
		if r.IdType != 1 {
			// the digits of a known subscriber under another identifier type do not name its account
			idx = -3
		}
		amount := r.Amount
		if idx >= 0 {
			switch r.AmtRel {
			case "bal-1":
				if model[idx] > 0 {
					amount = uint64(model[idx] - 1)
				}
			case "bal":
				if model[idx] >= 0 {
					amount = uint64(model[idx])
				}
			case "bal+1":
				if model[idx] >= 0 {
					amount = uint64(model[idx] + 1)
				}
			}
		}
		if amount > 1<<63-1 {
			amount = 1<<63 - 1
		}
		// keep results representable in the int64 decimal storage
		if idx >= 0 && r.Action == 1 && model[idx] > 0 && amount > uint64(math.MaxInt64-model[idx]) {
			amount = uint64(math.MaxInt64 - model[idx])
		}
		if idx >= 0 && r.Action == 0 && r.Type == 3 && model[idx] < 0 && amount > uint64(math.MaxInt64+model[idx]) {
			amount = 1
		}
		// the Service-Identifier of the unit is not the rating group (another account's number, when there is one)
		svcID := uint32(0)
		if c.ZeroRG || step%3 == 0 {
			svcID = uint32(accts[len(accts)-1].rg) + 0
			if svcID == uint32(rg) {
				svcID = 7
			}
		}
		ccr := &cdt.AccountDebitRequest{
			SessionId: datatype.UTF8String(r.Sess), OriginHost: "verif-client", OriginRealm: "verif", DestinationRealm: "go-diameter", DestinationHost: "server",
			UserName: datatype.OctetString("CHF"), RequestedAction: cdt.RequestedAction(r.Action), CcRequestType: cdt.CcRequestType(r.Type),
			CcRequestNumber: datatype.Unsigned32(r.Num), EventTimestamp: datatype.Time(time.Now()),
			SubscriptionId: &cdt.SubscriptionId{SubscriptionIdType: cdt.SubscriptionIdType(r.IdType), SubscriptionIdData: datatype.UTF8String(supi[5:])},
			MultipleServicesCreditControl: &cdt.MultipleServicesCreditControl{RatingGroup: datatype.Unsigned32(rg), ServiceIdentifier: datatype.Unsigned32(svcID),
				RequestedServiceUnit: &cdt.RequestedServiceUnit{CCTotalOctets: datatype.Unsigned64(amount)}},
		}
		used := amount
		if r.Both && r.Used != nil {
			used = *r.Used
			if idx >= 0 && model[idx] < 0 && used > uint64(math.MaxInt64+model[idx]) {
				used = 1
			}
			if used != amount {
				v.Label("used-differs-from-requested")
			}
		}
		if (r.Action == 0 && r.Type == 3) || r.Both {
			ccr.MultipleServicesCreditControl.UsedServiceUnit = &cdt.UsedServiceUnit{CCTotalOctets: datatype.Unsigned64(used)}
		}
		msg := diam.NewRequest(ccode.ABMF_CreditControl, ccode.Re_interface, dict.Default)
		if err := msg.Marshal(ccr); err != nil {
			return v.Failf("HARNESS-marshal", "%v", err)
		}
		if r.Lean {
			var kept []*diam.AVP
			for _, a := range msg.AVP {
				if a.Code == 436 && r.Action == 0 { // Requested-Action DIRECT_DEBITING
					continue
				}
				if a.Code == 439 && svcID == 0 { // a top-level Service-Identifier 0
					continue
				}
				kept = append(kept, a)
			}
			if len(kept) != len(msg.AVP) {
				msg.AVP = kept
				msg.Header.MessageLength = uint32(msg.Len())
				v.Label("zero-valued-avps-not-sent")
			}
		}
		before := map[int]int64{}
		for i, a := range accts {
			before[i], _ = env.Quota64(a.supi, a.rg)
		}
		wait := 2 * time.Second
		if idx < 0 {
			wait = 40 * time.Millisecond
		}
		switch {
		case r.Fault == "read" && idx >= 0:
			// nothing can be granted or booked when the account cannot be read
			env.FM.FailNextFind(1)
			wait = 150 * time.Millisecond
		case r.Fault == "write-applied" && idx >= 0:
			// the write happened: the request is booked once, whatever the database says about it
			env.FM.FailNextUpdateApplied(1)
		}
		ans, err := abmfPeer.Do(msg, wait)
		env.FM.FailNextFind(0)
		env.FM.FailNextUpdateApplied(0)
		if err != nil {
			abmfPeer = nil
			return v.Failf("HARNESS-io", "%v", err)
		}
		desc := fmt.Sprintf("step %d: CCR action %d type %d amount %d for account %d (model balance %d)", step, r.Action, r.Type, amount, idx, model[idx])
		if idx == -3 {
			v.NT("other-subscription-id-type")
		}
		if r.Fault == "read" && idx >= 0 {
			v.NT("database-read-fails")
			if ans != nil {
				var cca cdt.AccountDebitResponse
				if ans.Unmarshal(&cca) == nil && cca.MultipleServicesCreditControl != nil && cca.MultipleServicesCreditControl.GrantedServiceUnit != nil && cca.MultipleServicesCreditControl.GrantedServiceUnit.CCTotalOctets != 0 {
					return v.Failf("grant-without-reading-the-account", "%s: the account could not be read (database error), yet %d units were granted", desc, cca.MultipleServicesCreditControl.GrantedServiceUnit.CCTotalOctets)
				}
				if ans.Unmarshal(&cca) == nil && cca.MultipleServicesCreditControl != nil && uint32(cca.MultipleServicesCreditControl.RatingGroup) != uint32(rg) {
					return v.Failf("echo/rating-group-after-database-error", "%s: the answer names rating group %d, the request was for %d", desc, cca.MultipleServicesCreditControl.RatingGroup, rg)
				}
			}
			for i, a := range accts {
				q, _ := env.Quota64(a.supi, a.rg)
				if q != before[i] {
					return v.Failf("balance-changes-although-the-account-could-not-be-read", "%s: balance of account %d changed from %d to %d", desc, i, before[i], q)
				}
			}
			continue
		}
		if r.Fault == "write-applied" && idx >= 0 {
			v.NT("database-write-applied-but-reported-failed")
		}
		if idx == -6 {
			// nothing can be granted from, or booked on, a balance that cannot be read; the stored text stays
			v.NT("account-with-unreadable-balance")
			if ans != nil {
				var cca cdt.AccountDebitResponse
				if ans.Unmarshal(&cca) == nil && cca.MultipleServicesCreditControl != nil && cca.MultipleServicesCreditControl.GrantedServiceUnit != nil && cca.MultipleServicesCreditControl.GrantedServiceUnit.CCTotalOctets != 0 {
					return v.Failf("grant-from-unreadable-balance", "%s: the account's stored balance is the text %q, yet %d units were granted", desc, c.Odd, cca.MultipleServicesCreditControl.GrantedServiceUnit.CCTotalOctets)
				}
			}
			if d := env.FM.Get(stackenv.Coll, oddSupi, 1); d == nil || d["quota"] != c.Odd {
				return v.Failf("unreadable-balance-rewritten", "%s: the account's stored balance was the text %q and is now %v", desc, c.Odd, d["quota"])
			}
		}
		if idx < 0 {
			v.NT("unknown-account")
			for i, a := range accts {
				q, _ := env.Quota64(a.supi, a.rg)
				if q != before[i] {
					return v.Failf("unknown-account-changes-balance", "%s: balance of account %d changed from %d to %d", desc, i, before[i], q)
				}
			}
			continue
		}
		if ans == nil {
			return v.Failf("no-answer/action"+fmt.Sprint(r.Action), "%s: no answer within 2 s", desc)
		}
		var cca cdt.AccountDebitResponse
		if err := ans.Unmarshal(&cca); err != nil {
			return v.Failf("answer-unparsable", "%s: %v", desc, err)
		}
		if string(cca.SessionId) != r.Sess || int(cca.CcRequestType) != r.Type || uint32(cca.CcRequestNumber) != r.Num {
			return v.Failf("echo/action"+fmt.Sprint(r.Action), "%s: answer carries Session-Id %q, type %d, number %d; request had %q, %d, %d", desc, cca.SessionId, cca.CcRequestType, cca.CcRequestNumber, r.Sess, r.Type, r.Num)
		}
		bal := model[idx]
		exact := true
		switch {
		case r.Action == 0 && (r.Type == 1 || r.Type == 2): // reservation
			grant := int64(amount)
			if grant > bal {
				grant = bal
				if bal < 0 {
					grant = bal // the statement covers balances >= 0; a negative one is left to the clamp
				}
			}
			mscc := cca.MultipleServicesCreditControl
			if mscc == nil || mscc.GrantedServiceUnit == nil {
				return v.Failf("reservation-without-grant", "%s: answer has no Granted-Service-Unit", desc)
			}
			if bal >= 0 {
				if int64(mscc.GrantedServiceUnit.CCTotalOctets) != grant {
					return v.Failf("grant-not-min", "%s: granted %d, want min(requested, balance) = %d", desc, mscc.GrantedServiceUnit.CCTotalOctets, grant)
				}
				wantFUI := int64(amount) > bal
				if (mscc.FinalUnitIndication != nil) != wantFUI {
					return v.Failf("final-unit-indication", "%s: final-unit indication present=%v, want %v", desc, mscc.FinalUnitIndication != nil, wantFUI)
				}
				if int64(amount) == bal && bal > 0 {
					sawEq = true
				}
				if wantFUI {
					sawGt = true
				}
				model[idx] = bal - grant
				if model[idx] == 0 {
					exhausted[idx] = true
				}
			} else {
				exact = false
			}
			changes[idx]++
		case r.Action == 1: // refund
			model[idx] = bal + int64(amount)
			changes[idx]++
			if exhausted[idx] && amount > 0 {
				refundAfterExhaust = true
			}
		case r.Action == 0 && r.Type == 3: // termination debit: the amount stated is the used service units
			model[idx] = bal - int64(used)
			changes[idx]++
		case r.Action == 0: // EVENT_REQUEST direct debiting: not specified by the property
			exact = false
		}
		for i, a := range accts {
			q, err := env.Quota64(a.supi, a.rg)
			if err != nil {
				return v.Failf("quota-unreadable", "%s: %v", desc, err)
			}
			if i == idx && !exact {
				model[i] = q
				continue
			}
			if q != model[i] {
				which := "other-account"
				if i == idx {
					which = fmt.Sprintf("action%d-type%d", r.Action, r.Type)
				}
				return v.Failf("balance/"+which, "%s: stored balance of account %d is %d, model %d (before the request %d)", desc, i, q, model[i], before[i])
			}
			if q < 0 && r.Action == 0 && r.Type != 3 && i == idx {
				return v.Failf("reservation-below-zero", "%s: balance %d", desc, q)
			}
		}
	}
	if len(c.Bal) >= 3 {
		v.Label("subscriber-with-two-rating-groups")
	}
	for _, n := range changes {
		if n >= 3 && sawEq && sawGt && refundAfterExhaust {
			v.NT("eq-gt-refund-after-exhaustion")
		}
		if n >= 3 {
			v.NT(">=3-balance-changes-on-one-account")
		}
	}
	return v
}

func TestC07AccountServer(t *testing.T) { h.Run(t, "C07", "sequences", genC07, judgeC07) }
