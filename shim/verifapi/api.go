//go:build verif

package verifapi

import (
	"context"
	"encoding/json"
	"sort"
	"sync"

	"github.com/gin-gonic/gin"
	"github.com/sirupsen/logrus"

	"github.com/free5gc/chf/ccs_diameter/datatype"
	"github.com/free5gc/chf/cdr/asn"
	"github.com/free5gc/chf/cdr/cdrConvert"
	"github.com/free5gc/chf/cdr/cdrType"
	"github.com/free5gc/chf/internal/abmf"
	"github.com/free5gc/chf/internal/cgf"
	chf_context "github.com/free5gc/chf/internal/context"
	"github.com/free5gc/chf/internal/logger"
	"github.com/free5gc/chf/internal/rating"
	"github.com/free5gc/chf/internal/sbi"
	"github.com/free5gc/chf/internal/sbi/consumer"
	"github.com/free5gc/chf/internal/sbi/processor"
	"github.com/free5gc/chf/pkg/factory"
	"github.com/free5gc/openapi/models"
)

// App is the minimal app.App the SBI server and the processor need.
type App struct {
	cfg  *factory.Config
	proc *processor.Processor
	cons *consumer.Consumer
	ctx  context.Context
}

func (a *App) SetLogEnable(bool)                {}
func (a *App) SetLogLevel(string)               {}
func (a *App) SetReportCaller(bool)             {}
func (a *App) Start()                           {}
func (a *App) Terminate()                       {}
func (a *App) Context() *chf_context.CHFContext { return chf_context.GetSelf() }
func (a *App) Config() *factory.Config          { return a.cfg }
func (a *App) Consumer() *consumer.Consumer     { return a.cons }
func (a *App) Processor() *processor.Processor  { return a.proc }
func (a *App) CancelContext() context.Context   { return a.ctx }

var (
	theApp *App
	proc   *processor.Processor
)

// panic log capture (ginRecover logs "panic: ..." entries on logger.GinLog)
type hook struct {
	mu      sync.Mutex
	entries []string
}

func (h *hook) Levels() []logrus.Level { return logrus.AllLevels }
func (h *hook) Fire(e *logrus.Entry) error {
	h.mu.Lock()
	if len(h.entries) < 200 {
		h.entries = append(h.entries, e.Message)
	}
	h.mu.Unlock()
	return nil
}

var panicHook = &hook{}

// Quiet silences product logging but keeps panic-level capture through the hook.
func Quiet() {
	logger.Log.SetLevel(logrus.ErrorLevel)
	logger.Log.SetOutput(discard{})
	logger.Log.ReplaceHooks(logrus.LevelHooks{})
	logger.Log.AddHook(panicHook)
}

type discard struct{}

func (discard) Write(p []byte) (int, error) { return len(p), nil }

// LoggedErrors returns and clears the captured error-level log messages.
func LoggedErrors() []string {
	panicHook.mu.Lock()
	defer panicHook.mu.Unlock()
	out := panicHook.entries
	panicHook.entries = nil
	return out
}

// Init sets the configuration, initialises the CHF context and the processor
// (what service.NewApp does, minus NRF registration and listeners).
func Init(cfg *factory.Config) {
	factory.ChfConfig = cfg
	chf_context.Init()
	theApp = &App{cfg: cfg, ctx: context.Background()}
	theApp.proc, _ = processor.NewProcessor(theApp)
	theApp.cons, _ = consumer.NewConsumer(theApp)
	proc = theApp.proc
}

// NewEngine builds the real SBI router (sbi.NewServer) and returns its gin engine.
func NewEngine() (*gin.Engine, error) {
	s, err := sbi.NewServer(theApp, "")
	if err != nil {
		return nil, err
	}
	return s.VerifEngine(), nil
}

func SetOAuth(required bool, certPem string) {
	chf_context.GetSelf().OAuth2Required = required
	chf_context.GetSelf().NrfCertPem = certPem
}

func SelfURL() string { return chf_context.GetSelf().Url }

func Create(r models.ChfConvergedChargingChargingDataRequest) (*models.ChfConvergedChargingChargingDataResponse, string, *models.ProblemDetails) {
	return proc.ChargingDataCreate(r)
}

func Update(r models.ChfConvergedChargingChargingDataRequest, id string) (*models.ChfConvergedChargingChargingDataResponse, *models.ProblemDetails) {
	return proc.ChargingDataUpdate(r, id)
}

func Release(r models.ChfConvergedChargingChargingDataRequest, id string) *models.ProblemDetails {
	return proc.ChargingDataRelease(r, id)
}

func NotifyRecharge(supi string, rg int32) { proc.NotifyRecharge(supi, rg) }

// Snap is a copy of the per-subscriber state the properties observe.
type Snap struct {
	Exists     bool
	Locked     bool // CULock could not be taken (someone holds it)
	Reserved   map[int32]int64
	UnitCost   map[int32]uint32
	RatingType map[int32]int
	ReqNum     map[int32]uint32
	NotifyUri  string
	Sessions   []string // keys of ue.Cdr, sorted
	NRecords   int
}

func Snapshot(supi string) Snap {
	ue, ok := chf_context.GetSelf().ChfUeFindBySupi(supi)
	if !ok {
		return Snap{}
	}
	s := Snap{Exists: true, Reserved: map[int32]int64{}, UnitCost: map[int32]uint32{}, RatingType: map[int32]int{}, ReqNum: map[int32]uint32{}}
	if !ue.CULock.TryLock() {
		s.Locked = true
		return s
	}
	defer ue.CULock.Unlock()
	for k, v := range ue.ReservedQuota {
		s.Reserved[k] = v
	}
	for k, v := range ue.UnitCost {
		s.UnitCost[k] = v
	}
	for k, v := range ue.RatingType {
		s.RatingType[k] = int(v)
	}
	for k, v := range ue.AcctRequestNum {
		s.ReqNum[k] = v
	}
	s.NotifyUri = ue.NotifyUri
	for k := range ue.Cdr {
		s.Sessions = append(s.Sessions, k)
	}
	sort.Strings(s.Sessions)
	s.NRecords = len(ue.Records)
	return s
}

// RecordSizeWith: the encoded size of the session's open record as it stands (units nil) or as it would be with the
// usage of a request appended the way UpdateCDR appends it; the record is left as it was.
func RecordSizeWith(supi, ref string, units []models.ChfConvergedChargingMultipleUnitUsage) int {
	ue, ok := chf_context.GetSelf().ChfUeFindBySupi(supi)
	if !ok {
		return -1
	}
	ue.CULock.Lock()
	defer ue.CULock.Unlock()
	r := ue.Cdr[ref]
	if r == nil || r.ChargingFunctionRecord == nil {
		return -1
	}
	rec := r.ChargingFunctionRecord
	n := len(rec.ListOfMultipleUnitUsage)
	if len(units) > 0 {
		rec.ListOfMultipleUnitUsage = append(rec.ListOfMultipleUnitUsage[:n:n], cdrConvert.MultiUnitUsageToCdr(units)...)
	}
	b, err := asn.BerMarshalWithParams(&r, "explicit,choice")
	rec.ListOfMultipleUnitUsage = rec.ListOfMultipleUnitUsage[:n]
	if err != nil {
		return -1
	}
	return len(b)
}

// SetPeerPorts points the CHF's Diameter clients at the given ports (they read the configuration at every request):
// a port nobody listens on makes every attempt to reach that peer fail at once.
func SetPeerPorts(rf, abmf int) {
	factory.ChfConfig.Configuration.RfDiameter.Port = rf
	factory.ChfConfig.Configuration.AbmfDiameter.Port = abmf
}

// SetAcctRequestNum puts the subscriber's credit-control request counter of a rating group where that many requests
// would have left it (a state reachable only by sending them all).
func SetAcctRequestNum(supi string, rg int32, n uint32) bool {
	ue, ok := chf_context.GetSelf().ChfUeFindBySupi(supi)
	if !ok {
		return false
	}
	ue.CULock.Lock()
	defer ue.CULock.Unlock()
	ue.AcctRequestNum[rg] = n
	return true
}

// Locked reports whether the subscriber's lock is held right now.
func Locked(supi string) bool {
	ue, ok := chf_context.GetSelf().ChfUeFindBySupi(supi)
	if !ok {
		return false
	}
	if ue.CULock.TryLock() {
		ue.CULock.Unlock()
		return false
	}
	return true
}

// Records returns deep copies (via JSON, as the product itself copies records)
// of every record the subscriber holds: the ordered ue.Records list and the
// session map ue.Cdr.
func Records(supi string) (list []*cdrType.CHFRecord, bySession map[string]*cdrType.CHFRecord, locked bool) {
	ue, ok := chf_context.GetSelf().ChfUeFindBySupi(supi)
	if !ok {
		return nil, nil, false
	}
	if !ue.CULock.TryLock() {
		return nil, nil, true
	}
	defer ue.CULock.Unlock()
	cp := func(r *cdrType.CHFRecord) *cdrType.CHFRecord {
		if r == nil {
			return nil
		}
		b, _ := json.Marshal(r)
		var out cdrType.CHFRecord
		_ = json.Unmarshal(b, &out)
		return &out
	}
	for _, r := range ue.Records {
		list = append(list, cp(r))
	}
	bySession = map[string]*cdrType.CHFRecord{}
	for k, r := range ue.Cdr {
		bySession[k] = cp(r)
	}
	return list, bySession, false
}

// SameRecord reports, for each element of ue.Records, the session keys of
// ue.Cdr that point at the very same record object.
func RecordIdentity(supi string) (idx map[string]int) {
	idx = map[string]int{}
	ue, ok := chf_context.GetSelf().ChfUeFindBySupi(supi)
	if !ok || !ue.CULock.TryLock() {
		return idx
	}
	defer ue.CULock.Unlock()
	for k, r := range ue.Cdr {
		idx[k] = -1
		for i, x := range ue.Records {
			if x == r {
				idx[k] = i
			}
		}
	}
	return idx
}

func UeExists(supi string) bool {
	_, ok := chf_context.GetSelf().ChfUeFindBySupi(supi)
	return ok
}

func UeCount() int {
	n := 0
	chf_context.GetSelf().UePool.Range(func(_, _ interface{}) bool { n++; return true })
	return n
}

func SetLocalRecordSeq(n uint64) {
	c := chf_context.GetSelf()
	c.Lock()
	c.LocalRecordSequenceNumber = n
	c.Unlock()
}

func LocalRecordSeq() uint64 {
	c := chf_context.GetSelf()
	c.Lock()
	defer c.Unlock()
	return c.LocalRecordSequenceNumber
}

// OpenCgf starts the charging gateway function the way service.Start does.
func OpenCgf(ctx context.Context, wg *sync.WaitGroup) {
	cgf.CGFEnable = true
	wg.Add(1)
	cgf.OpenServer(ctx, wg)
}

// RunSBIServer does what service.Start's sbiServer.Run does, with an application context that is already
// cancelled: the NRF registration loop gives up at once and the listener routine (startServer) is started.
func RunSBIServer() error { return RunSBIServerKeyLog("") }

// RunSBIServerKeyLog is RunSBIServer with a TLS key log file, as `chf -l <file>` starts the server.
func RunSBIServerKeyLog(tlsKeyLogPath string) error {
	ctx, cancel := context.WithCancel(context.Background())
	cancel()
	a := &App{cfg: factory.ChfConfig, ctx: ctx}
	a.proc, _ = processor.NewProcessor(a)
	a.cons, _ = consumer.NewConsumer(a)
	s, err := sbi.NewServer(a, tlsKeyLogPath)
	if err != nil {
		return err
	}
	var wg sync.WaitGroup
	return s.Run(context.Background(), &wg)
}

// ClientSUR sends a service-usage request through the CHF's own rating client (internal/rating) on behalf of the
// subscriber, whose context is created if need be, and returns what the client hands to the processor.
func ClientSUR(supi string, sur *datatype.ServiceUsageRequest) (*datatype.ServiceUsageResponse, error) {
	ue, err := chf_context.GetSelf().NewCHFUe(supi)
	if err != nil {
		return nil, err
	}
	return rating.SendServiceUsageRequest(ue, sur)
}

// ClientCCR does the same through the account-balance client (internal/abmf).
func ClientCCR(supi string, ccr *datatype.AccountDebitRequest) (*datatype.AccountDebitResponse, error) {
	ue, err := chf_context.GetSelf().NewCHFUe(supi)
	if err != nil {
		return nil, err
	}
	return abmf.SendAccountDebitRequest(ue, ccr)
}
