//go:build verif

// Package verifapi is the build-tagged, add-only shim through which the
// verification harness (a separate module) reaches internal packages.
package verifapi
