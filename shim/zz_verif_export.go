//go:build verif

package sbi

import "github.com/gin-gonic/gin"

// VerifEngine exposes the router built by NewServer (verification hook).
func (s *Server) VerifEngine() *gin.Engine { return s.router }
