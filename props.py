"""Property table of the driver: which engine/units decide each property."""

PROPS = {
    "C14": {
        "technique": "property-based testing (rapid): round-trip oracle decode(encode(f)) == f over generated well-formed TS 32.297 file structures, all 64 release-identifier pairs per run",
        "rule": "cases are well-formed CDRFile structures drawn by rapid (release ids 0-7 with 7 at 1/3, extension octets, all header fields within bit width, routeing filter/private extension/payload lengths from {0,1,2,255,256,32768,65534,65535,random<=40,random<=65535}, 0-6 records, thorough up to 300); unit 'pairs' runs all 64 (high,low) pairs per case. Non-trivial = exactly one of the two release ids is 7, or zero records, or an empty payload, or a variable part >=256 octets, or records with and without an extension octet side by side. Distinct = distinct FNV-64 hash of the canonical JSON case.",
        "essential": ["lowExtOnly", "highExtOnly", "zeroRecords", "emptyPayload", "variablePart>=256", "mixedRecordExt", "variableParts>64KiB", "payload>=32KiB"],
        
        "assumptions": ["rapid v1.3.0, Go 1.23.5", "temp files under the scratch work directory"],
        "units": [
            {"name": "roundtrip", "engine": "cdrfile", "test": "TestC14RoundTrip", "quick_checks": 6000, "thorough_checks": 12000, "thorough_shards": 8},
            {"name": "pairs", "engine": "cdrfile", "test": "TestC14Pairs", "quick_checks": 100, "thorough_checks": 400, "thorough_shards": 8},
        ],
    },
    "C15": {
        "technique": "property-based testing (rapid): independent TS 32.297 clause 6.1 reader plus spec-offset byte-layout assertions over generated file structures",
        "rule": "same generator as C14; oracle = (1) every field found at the offset and bit position the specification tables give, computed from the generated case and not from the reader, file length accounted for exactly; (2) an independent reader written from clause 6.1 recovers every written field and consumes the file. Non-trivial and distinct as for C14.",
        "essential": ["lowExtOnly", "highExtOnly", "zeroRecords", "emptyPayload", "variablePart>=256", "mixedRecordExt", "variableParts>64KiB", "payload>=32KiB"],
        "assumptions": ["rapid v1.3.0, Go 1.23.5", "the harness's reading of TS 32.297 6.1.1/6.1.2 (self-tested against the repository's own example file)"],
        "units": [
            {"name": "layout", "engine": "cdrfile", "test": "TestC15Layout", "quick_checks": 6000, "thorough_checks": 12000, "thorough_shards": 8},
            {"name": "pairs", "engine": "cdrfile", "test": "TestC15Pairs", "quick_checks": 100, "thorough_checks": 400, "thorough_shards": 8},
        ],
    },
}
