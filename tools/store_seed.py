#!/usr/bin/env python3
"""tools/store_seed.py <seed dir> <id under /verif/seeded> <check=verdict[:sig]> ...   - keeps a confirmed seeded change"""
import json, os, shutil, subprocess, sys
src, name = sys.argv[1], sys.argv[2]
dst = os.path.join("/verif/seeded", name)
os.makedirs(dst, exist_ok=True)
for f in os.listdir(src):
    if f in ("go.mod",): continue
    p = os.path.join(src, f)
    if os.path.isfile(p): shutil.copy(p, os.path.join(dst, f))
    elif os.path.isdir(p): shutil.copytree(p, os.path.join(dst, f), dirs_exist_ok=True)
# stored demo files must not be compiled by accident
for f in os.listdir(dst):
    if f.endswith("_test.go"): os.rename(os.path.join(dst, f), os.path.join(dst, f + ".txt"))
mp = os.path.join(dst, "meta.json")
meta = json.load(open(mp)) if os.path.exists(mp) else {}
head = subprocess.run(["git", "-C", "/repo", "rev-parse", "--short", "HEAD"], capture_output=True, text=True).stdout.strip()
meta["confirmed"] = {"repo_head": head, "how": "tools/try_seed.sh: patch applied to a scratch worktree of /repo HEAD; go build ./... ok; go test ./... (existing suite) passes; demonstration passes on the unchanged tree and fails with the change; then the quick checks below were run against the changed tree (VERIF_REPO=<worktree>)",
                     "checks": {a.split("=")[0]: a.split("=", 1)[1] for a in sys.argv[3:]},
                     "note": "demonstration files are stored with a .txt suffix so that no Go tool compiles them here; demo_cmd refers to their original names"}
json.dump(meta, open(mp, "w"), indent=1)
print("stored", dst)
