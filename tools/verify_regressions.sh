#!/bin/bash
# Every findings/<ID>/{fixed,known}-*.json must FAIL on the original tree (pinned commit) and the fixed-* ones must PASS on /repo.
# usage: tools/verify_regressions.sh [ID ...]
cd "$(dirname "$(readlink -f "$0")")/.."
ORIG=$(git -C /repo rev-list --max-parents=0 HEAD | tail -1)
WT=/var/tmp/chf-orig-wt
rm -rf $WT; git -C /repo worktree prune; git -C /repo worktree add -q --detach $WT $ORIG || exit 2
trap 'git -C /repo worktree remove --force $WT; rm -rf /var/tmp/chf-verif-orig' EXIT
ids=${@:-$(ls findings)}
for p in $ids; do
  for f in findings/$p/*.json; do
    [ -f "$f" ] || continue
    o=$(VERIF_REPO=$WT VERIF_WORKROOT=/var/tmp/chf-verif-orig ./check $p --replay $f 2>&1 | grep -a "VIOLATION\|replay passes\|error" | head -1 | cut -c1-160)
    case "$o" in VIOLATION*) r=ok;; *) r=NOT-FAILING-ON-ORIGINAL;; esac
    echo "$r  $f  :: $o"
  done
done
