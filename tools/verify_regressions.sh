#!/bin/bash
# Every findings/<ID>/fixed-*.json must FAIL on the parent of the fix commit that KNOWN_FINDINGS.txt names for it (the
# tree just before the repair) and PASS on /repo; known-*.json must fail on /repo's HEAD when replayed (a replay does
# not tolerate known findings).  Replays that no KNOWN_FINDINGS line names are checked against the pinned original.
# usage: tools/verify_regressions.sh [ID ...]
cd "$(dirname "$(readlink -f "$0")")/.."
ORIG=$(git -C /repo rev-list --max-parents=0 HEAD | tail -1)
WT=/var/tmp/chf-orig-wt
trap 'git -C /repo worktree remove --force $WT 2>/dev/null; rm -rf /var/tmp/chf-verif-orig' EXIT
ids=${@:-$(ls findings)}
for p in $ids; do
  for f in findings/$p/*.json; do
    [ -f "$f" ] || continue
    b=$(basename $f)
    case "$b" in
      known-*) base=HEAD;;
      *) c=$(grep "^fixed: property=$p " KNOWN_FINDINGS.txt | grep -F "$b" | head -1 | awk '{print $3}')
         [ -z "$c" ] && c=$(grep "^fixed: property=$p " KNOWN_FINDINGS.txt | grep -F "${b%.json}" | head -1 | awk '{print $3}')
         c=${c%%+*}   # a finding repaired by several commits: the tree before the first of them
         if [ -n "$c" ]; then base="$c^"; else base=$ORIG; fi;;
    esac
    git -C /repo worktree remove --force $WT 2>/dev/null; git -C /repo worktree prune
    git -C /repo worktree add -q --detach $WT $base || { echo "WORKTREE-FAILED $f $base"; continue; }
    tries=1; [ $p = C09 ] && tries=6   # schedule-dependent findings: a replay shows them only under the right interleaving
    for t in $(seq $tries); do
      o=$(VERIF_REPO=$WT VERIF_WORKROOT=/var/tmp/chf-verif-orig ./check $p --replay $f 2>&1 | grep -a "VIOLATION\|replay passes\|error" | head -1 | cut -c1-160)
      case "$o" in VIOLATION*) break;; esac
    done
    case "$o" in VIOLATION*) r=ok;; *) r=NOT-FAILING-BEFORE-FIX;; esac
    r2=""
    case "$b" in fixed-*) o2=$(./check $p --replay $f 2>&1 | grep -a "VIOLATION\|replay passes\|error" | head -1 | cut -c1-100)
       case "$o2" in "replay passes"*) r2="passes-now";; *) r2="STILL-FAILING-NOW";; esac;; esac
    echo "$r $r2 ($base)  $f  :: $o"
  done
done
