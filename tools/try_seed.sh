#!/bin/bash
# tools/try_seed.sh <seed dir with patch.diff [+ demo + meta.json]> <ID> [ID ...]
# Applies the seeded change to a scratch worktree of /repo's HEAD, confirms that it builds and passes the
# project's own tests, runs the demonstration with and without the change when it can locate it, then runs
# the quick checks of the given properties against the changed tree.  Never touches /repo's working tree.
SEED=$(readlink -f "$1"); shift
export GOFLAGS=-mod=mod GOPROXY=off GOSUMDB=off GOTOOLCHAIN=local
N=$$
WT=/var/tmp/seedtry-$N
git -C /repo worktree add -q --detach $WT HEAD || exit 2
trap 'git -C /repo worktree remove --force $WT 2>/dev/null; rm -rf /var/tmp/chf-verif-seed-$N' EXIT
echo "== seed $SEED"
[ -f "$SEED/meta.json" ] && python3 -c "
import json,sys; m=json.load(open('$SEED/meta.json')); print('   summary:', str(m.get('summary'))[:300]); print('   needs:  ', str(m.get('needs'))[:300]); print('   demo:   ', m.get('demo_cmd'))"
# locate the demonstration: copy every *_seeddemo_test.go into the package named by demo_cmd, or seeddemo/ dirs as they are
demo_cmd=$(python3 -c "import json; print(json.load(open('$SEED/meta.json')).get('demo_cmd',''))" 2>/dev/null)
pkg=$(echo "$demo_cmd" | grep -o '\./[A-Za-z0-9_/\.]*' | grep -v '^\./\.\.\.' | head -1)
copy_demo() { cp -r "$SEED" "$WT/$(basename "$SEED")"; [ -d "$SEED/seeddemo" ] && cp -r "$SEED/seeddemo" "$WT/";
  # when demo_cmd does not copy the demonstration itself, put every *_seeddemo_test.go into the package it names
  if ! echo "$demo_cmd" | grep -q '^cp \|&& cp \|; cp '; then for f in "$SEED"/*_seeddemo_test.go; do [ -f "$f" ] && [ -n "$pkg" ] && cp "$f" "$WT/$pkg/"; done; fi; true; }
run_demo() { (cd $WT && timeout 600 bash -c "$demo_cmd" > /var/tmp/seedtry-$N.demo 2>&1); echo $?; }
if [ -n "$demo_cmd" ]; then
  copy_demo
  r0=$(run_demo); echo "   demo on the unchanged tree: exit $r0 (want 0)"
fi
if ! git -C $WT apply "$SEED/patch.diff"; then echo "   PATCH DOES NOT APPLY"; exit 3; fi
(cd $WT && go build ./... ) || { echo "   DOES NOT BUILD"; exit 3; }
if [ -n "$demo_cmd" ]; then r1=$(run_demo); echo "   demo with the change:       exit $r1 (want non-zero)"; tail -5 /var/tmp/seedtry-$N.demo | cut -c1-200 | sed 's/^/      | /'; fi
# the project's own tests, without the demonstration
find $WT -name '*_seeddemo_test.go' -delete; rm -rf $WT/seeddemo "$WT/$(basename "$SEED")"; git -C $WT status --porcelain | grep '^??' | awk '{print $2}' | (cd $WT && xargs -r rm -rf)
(cd $WT && go test -count=1 ./... > /var/tmp/seedtry-$N.tests 2>&1) && echo "   existing tests: pass" || { echo "   EXISTING TESTS FAIL"; grep -a "FAIL" /var/tmp/seedtry-$N.tests | head -5; }
for id in "$@"; do
  out=$(cd ${VERIF_DIR:-/verif} && VERIF_REPO=$WT VERIF_WORKROOT=/var/tmp/chf-verif-seed-$N ./check $id quick 2>&1)
  rc=$?
  echo "   check $id: exit $rc  $(echo "$out" | grep -a 'VIOLATION' | head -2 | cut -c1-220 | tr '\n' ' ')"
  [ $rc -eq 2 ] && echo "$out" | grep -a "INCONCL\|error" | head -3 | cut -c1-300 | sed 's/^/      | /'
done
rm -f /var/tmp/seedtry-$N.demo /var/tmp/seedtry-$N.tests
# evidence and replays of these runs belong to the seeded tree, not to /repo: the driver writes them under the scratch
# work root (removed by the trap), never into /verif
