#!/usr/bin/env python3
"""Own sensitivity mutants (DESIGN section 4): each is a textual edit of the tree that still compiles and
passes the project's tests; the named checks must report a VIOLATION on it within the quick budget.
usage: tools/mutants.py [name-substring ...]      (runs in scratch worktrees of /repo's HEAD, never in /repo)"""
import os, subprocess, sys, shutil, json
ENV = dict(os.environ, GOFLAGS="-mod=mod", GOPROXY="off", GOSUMDB="off", GOTOOLCHAIN="local")
M = [
 ("C01-used-twice", "internal/sbi/processor/converged_charging.go", "\t\t\tue.ReservedQuota[rg] -= int64(usedQuota)\n", "\t\t\tue.ReservedQuota[rg] -= int64(usedQuota)\n\t\t\tif len(unitUsage.UsedUnitContainer) > 2 {\n\t\t\t\tue.ReservedQuota[rg] -= int64(usedQuota)\n\t\t\t}\n", ["C01"]),
 ("C01-final-keeps-reservation", "internal/sbi/processor/converged_charging.go", "\t\t\tue.ReservedQuota[rg] = 0\n", "\t\t\tif ccr.RequestedAction != charging_datatype.REFUND_ACCOUNT {\n\t\t\t\tue.ReservedQuota[rg] = 0\n\t\t\t}\n", ["C01"]),
 ("C06-abmf-no-clamp", "pkg/abmf/abmf.go", "\t\t\t\t\trequestQuota = quota\n", "", ["C06", "C07"]),
 ("C07-fui-ge", "pkg/abmf/abmf.go", "if requestQuota > quota {", "if requestQuota >= quota {", ["C07"]),
 ("C07-refund-stale-number", "pkg/abmf/abmf.go", "\t\t\tCcRequestNumber: ccr.CcRequestNumber,\n", "\t\t\tCcRequestNumber: ccr.CcRequestNumber &^ (1 << 31),\n", ["C07"]),
 ("C08-allowed-round-up", "pkg/rf/rating.go", "sua.ServiceRating.AllowedUnits = sr.MonetaryQuota / unitCost\n", "sua.ServiceRating.AllowedUnits = (sr.MonetaryQuota + unitCost - 1) / unitCost\n", ["C08"]),
 ("C08-exponent-one-side", "internal/sbi/processor/converged_charging.go", "math.Pow10(int(serviceUsageRsp.ServiceRating.MonetaryTariff.RateElement.UnitCost.Exponent)))", "math.Pow10(-int(serviceUsageRsp.ServiceRating.MonetaryTariff.RateElement.UnitCost.Exponent)))", ["C08"]),
 ("C02-swap-up-down", "cdr/cdrConvert/sbiToCdr.go", "Value: int64(usedUnitContainer.UplinkVolume),", "Value: int64(usedUnitContainer.DownlinkVolume),", ["C02"]),
 ("C02-cause-partial-0", "internal/sbi/processor/cdr.go", "chfCdr.CauseForRecClosing = cdrType.CauseForRecClosing{Value: 1}", "chfCdr.CauseForRecClosing = cdrType.CauseForRecClosing{Value: 0}", ["C02"]),
 ("C02-bcd-minute", "cdr/cdrConvert/sbiToCdr.go", "tzMin := tz % 3600 / 60", "tzMin := tz / 3600 % 60", ["C02"]),
 ("C03-filelength", "internal/sbi/processor/cdr.go", "cdrfile.Hdr.FileLength += uint32(len(cdrBytes)) + 4", "cdrfile.Hdr.FileLength += uint32(len(cdrBytes)) + 4*uint32(len(cdrfile.CdrList)%2)", ["C03"]),
 ("C03-no-size-guard", "internal/sbi/processor/converged_charging.go", "if len(cdrBytes)+len(chgDataBytes) > math.MaxUint16 {", "if len(cdrBytes)+len(chgDataBytes) > 2*math.MaxUint16 {", ["C03"]),
 ("C04-long-form-threshold", "cdr/asn/ber_marshal.go", "\tif t.len <= 127 {", "\tif t.len <= 128 {", ["C04"]),
 ("C04-int-len", "cdr/asn/ber_marshal.go", "\tfor i < -128 {", "\tfor i < -129 {", ["C04", "C05"]),
 ("C04-tag-base128", "cdr/asn/ber_marshal.go", "\t\tfor tmp > 127 {", "\t\tfor tmp > 128 {", ["C04"]),
 ("C05-bitstring-unused", "cdr/asn/ber_unmarshal.go", "r.BitLength = uint64((len(bytes)-1)*8 - int(bytes[0]))", "r.BitLength = uint64((len(bytes)-1)*8 - int(bytes[0]&6))", ["C05"]),
 ("C05-seq-skip-current", "cdr/asn/ber_unmarshal.go", "\t\t\t\tcurrent++\n\t\t\t}\n\t\t} else {", "\t\t\t\tcurrent += 1 + current/6\n\t\t\t}\n\t\t} else {", ["C05"]),
 ("C16-no-length-bound", "cdr/asn/ber_unmarshal.go", "\t\tif off+n > len(bytes) {", "\t\tif off+n > len(bytes)+1 {", ["C16"]),
 ("C16-ge", "cdr/asn/ber_unmarshal.go", "\tif int64(talOff)+tal.len > int64(len(bytes)) {\n\t\treturn fmt.Errorf(\"type value out of range\")\n\t}\n", "\tif int64(talOff)+tal.len > int64(len(bytes))+1 {\n\t\treturn fmt.Errorf(\"type value out of range\")\n\t}\n", ["C16"]),
 ("C14-record-ext-offset", "cdr/cdrFile/cdrFile.go", "\t\t\tcdrHeader.ReleaseIdentifierExtension = data[tail+4]\n\t\t\ti++\n", "\t\t\tcdrHeader.ReleaseIdentifierExtension = data[tail+4]\n", ["C14"]),
 ("C15-sign-bit", "cdr/cdrFile/cdrFile.go", "uint32(cdrf.FileOpeningTimestamp.SignOfTheLocalTimeDifferentialFromUtc)<<11 |", "uint32(cdrf.FileOpeningTimestamp.SignOfTheLocalTimeDifferentialFromUtc)<<12 |", ["C15", "C14"]),
 ("C15-ext-order", "cdr/cdrFile/cdrFile.go", None, None, ["C15"]),
 ("C10-no-counter", "internal/sbi/processor/converged_charging.go", "chargingSessionId = ueId + \"-\" + consumerId + \"-\" + strconv.Itoa(int(recordSeq))", "chargingSessionId = ueId + \"-\" + consumerId + \"-\" + strconv.Itoa(int(recordSeq%7))", ["C10"]),
 ("C11-no-requestedunit-check", "internal/sbi/processor/converged_charging.go", "\t\tif unitUsage.RequestedUnit != nil {\n\t\t\tcontinue\n\t\t}\n", "\t\tif unitUsage.RequestedUnit != nil || len(unitUsage.UsedUnitContainer) > 1 {\n\t\t\tcontinue\n\t\t}\n", ["C11"]),
 ("C11-create-lock-leak", "internal/sbi/processor/converged_charging.go", "\terr = p.UpdateCDR(cdr, chargingData)\n\tif err != nil {\n\t\t// Lock in line 158\n\t\tue.CULock.Unlock()\n", "\terr = p.UpdateCDR(cdr, chargingData)\n\tif err != nil || len(chargingData.MultipleUnitUsage) > 2 {\n\t\t// Lock in line 158\n", ["C11", "C01"]),
 ("C12-notify-twice", "internal/sbi/processor/converged_charging.go", "\tp.SendChargingNotification(notifyUri, notifyRequest)\n", "\tp.SendChargingNotification(notifyUri, notifyRequest)\n\tif rg == 3 {\n\t\tp.SendChargingNotification(notifyUri, notifyRequest)\n\t}\n", ["C12"]),
 ("C12-create-200", "internal/sbi/processor/converged_charging.go", "c.JSON(http.StatusCreated, response)", "c.JSON(http.StatusOK, response)", ["C12"]),
 ("C13-use-after-routes", "internal/sbi/server.go", None, None, ["C13"]),
 ("C17-wrong-tag", "ccs_diameter/datatype/ServiceRating.go", "`avp:\"ConsumedUnits\"`", "`avp:\"ConsumedUnitsAfterTariffSwitch\"`", ["C17"]),
 ("C17-dict-type", "ccs_diameter/dict/dictionary.go", None, None, ["C17"]),
 ("C18-rating-no-close", "internal/rating/rating.go", "\tdefer conn.Close()\n", "", ["C18"]),
 ("C19-no-conn-check", "internal/abmf/abmf.go", None, None, ["C19"]),
 ("C20-cgf-optional", "pkg/factory/config.go", "Cgf                 *Cgf      `yaml:\"cgf,omitempty\" valid:\"required\"`", "Cgf                 *Cgf      `yaml:\"cgf,omitempty\" valid:\"optional\"`", ["C20"]),
 ("C20-service-default", "pkg/factory/config.go", "\t\tcase serviceName == \"nchf-spendinglimitcontrol\":\n\t\tdefault:", "\t\tcase serviceName == \"nchf-spendinglimitcontrol\":\n\t\tcase index > 0:\n\t\tdefault:", ["C20"]),
 ("C09-recharge-no-lock", "internal/sbi/processor/converged_charging.go", "\tue.CULock.Lock()\n\tue.RatingType[rg] = charging_datatype.REQ_SUBTYPE_RESERVE\n\tnotifyUri := ue.NotifyUri\n\tue.CULock.Unlock()\n", "\tue.RatingType[rg] = charging_datatype.REQ_SUBTYPE_RESERVE\n\tnotifyUri := ue.NotifyUri\n", ["C09"]),
]

def special(name, wt):
    if name == "C15-ext-order":
        p = os.path.join(wt, "cdr/cdrFile/cdrFile.go"); s = open(p).read()
        a = s.index('\t// "High Release Identifier" extension'); b = s.index('\t// "Low Release Identifier" extension'); c = s.index('\t// fmt.Printf("Encoded: % b\\n", buf.Bytes())\n\t// fmt.Printf("%#v\\n", sign)')
        s = s[:a] + s[b:c] + s[a:b] + s[c:]; open(p, "w").write(s); return True
    if name == "C13-use-after-routes":
        p = os.path.join(wt, "internal/sbi/server.go"); s = open(p).read()
        old = """			chfSpendingLimitControlGroup.Use(func(c *gin.Context) {
				// oauth middleware
				util.NewRouterAuthorizationCheck(models.ServiceName(serviceName)).Check(c, s.Context())
			})
			chfSpendingLimitControlRoutes := s.getSpendingLimitControlRoutes()
			applyRoutes(chfSpendingLimitControlGroup, chfSpendingLimitControlRoutes)
"""
        new = """			chfSpendingLimitControlRoutes := s.getSpendingLimitControlRoutes()
			applyRoutes(chfSpendingLimitControlGroup, chfSpendingLimitControlRoutes)
			chfSpendingLimitControlGroup.Use(func(c *gin.Context) {
				// oauth middleware
				util.NewRouterAuthorizationCheck(models.ServiceName(serviceName)).Check(c, s.Context())
			})
"""
        if old not in s: return False
        open(p, "w").write(s.replace(old, new)); return True
    if name == "C17-dict-type":
        p = os.path.join(wt, "ccs_diameter/dict/dictionary.go"); s = open(p).read()
        old = '<avp name="MonetaryQuota" code="7016">\n\t\t\t<data type="Unsigned32"/>'
        if old not in s: return False
        open(p, "w").write(s.replace(old, '<avp name="MonetaryQuota" code="7016">\n\t\t\t<data type="Unsigned64"/>')); return True
    if name == "C19-no-conn-check":
        for f, close in (("internal/abmf/abmf.go", True),):
            p = os.path.join(wt, f); s = open(p).read()
            a = "\t\tif c != conn {\n\t\t\tlogger.AcctLog.Warnf(\"Discard CCA received on the connection of an earlier request\")\n\t\t\treturn\n\t\t}\n"
            if a not in s: return False
            s = s.replace(a, "").replace("\tdefer conn.Close()\n", "")
            open(p, "w").write(s)
        return True
    return False

def main():
    sel = sys.argv[1:]
    res = []
    for name, f, old, new, checks in M:
        if sel and not any(x in name for x in sel): continue
        wt = "/var/tmp/mut-%d-%s" % (os.getpid(), name)
        subprocess.run(["git", "-C", "/repo", "worktree", "add", "-q", "--detach", wt, "HEAD"], check=True)
        try:
            if old is None:
                ok = special(name, wt)
            else:
                p = os.path.join(wt, f); s = open(p).read(); ok = old in s
                if ok: open(p, "w").write(s.replace(old, new, 1))
            if not ok:
                res.append((name, "EDIT-DOES-NOT-APPLY", "")); print(name, "EDIT-DOES-NOT-APPLY", flush=True); continue
            r = subprocess.run(["go", "build", "./..."], cwd=wt, env=ENV, capture_output=True, text=True)
            if r.returncode: res.append((name, "NO-BUILD", r.stderr[-300:])); print(name, "NO-BUILD", r.stderr[-300:], flush=True); continue
            r = subprocess.run(["go", "test", "-count=1", "./..."], cwd=wt, env=ENV, capture_output=True, text=True)
            tests = "tests-pass" if r.returncode == 0 else "TESTS-FAIL"
            for c in checks:
                e = dict(ENV, VERIF_REPO=wt, VERIF_WORKROOT="/var/tmp/chf-verif-mut-%d" % os.getpid())
                r = subprocess.run(["./check", c, "quick"], cwd="/verif", env=e, capture_output=True, text=True)
                v = [l for l in r.stdout.splitlines() if l.startswith("VIOLATION")]
                verdict = "KILLED" if r.returncode == 1 else ("SURVIVED" if r.returncode == 0 else "INCONCLUSIVE")
                line = (name, c, verdict, tests, (v[0].split("sig=")[-1] if v else ""))
                res.append(line); print(*line, flush=True)
        finally:
            subprocess.run(["git", "-C", "/repo", "worktree", "remove", "--force", wt])
            shutil.rmtree("/var/tmp/chf-verif-mut-%d" % os.getpid(), ignore_errors=True)
    subprocess.run("git status --porcelain replays | awk '{print $2}' | xargs -r rm -rf", shell=True, cwd="/verif")

main()
