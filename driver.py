#!/usr/bin/env python3
"""Driver of the CHF verification checks.

  check <ID> <quick|thorough> [--replay <file>]

Rebuilds a scratch copy of /repo's working tree (with the build-tagged shim
added), compiles the harness engine of the property, runs its units (one
process per shard), merges the per-shard summaries into
/verif/evidence/<ID>.json and maps the outcome to the exit-code contract:
0 held, 1 VIOLATION (not a listed known finding), 2 not a verdict.
"""
import hashlib
import json
import os
import shutil
import struct
import subprocess
import sys
import time

VERIF = os.path.dirname(os.path.abspath(__file__))
REPO = os.environ.get("VERIF_REPO", "/repo")
WORKROOT = os.environ.get("VERIF_WORKROOT", "/var/tmp/chf-verif")
# Evidence files and new replay files describe /repo.  A run pointed at another tree (VERIF_REPO: scratch worktrees
# with a seeded change, the tree before a repair) must not overwrite them: its output goes to the scratch area.
OUTROOT = VERIF if os.path.realpath(REPO) == "/repo" else os.path.join(WORKROOT, "other-tree-output")
GOENV = {"GOFLAGS": "-mod=mod", "GOPROXY": "off", "GOSUMDB": "off", "GOTOOLCHAIN": "local",
         "CGO_ENABLED": "1"}

sys.path.insert(0, VERIF)
from props import PROPS  # noqa: E402


def log(*a):
    print("[check]", *a, file=sys.stderr, flush=True)


def run(cmd, cwd=None, env=None, timeout=None, capture=True):
    e = dict(os.environ)
    e.update(GOENV)
    if env:
        e.update(env)
    return subprocess.run(cmd, cwd=cwd, env=e, timeout=timeout, stdout=subprocess.PIPE if capture else None,
                          stderr=subprocess.STDOUT if capture else None, text=True)


def prepare(work):
    """$WORK/src = /repo working tree + shim; $WORK/harness = /verif/harness."""
    if os.path.exists(work):
        shutil.rmtree(work, ignore_errors=True)
    os.makedirs(work)
    src = os.path.join(work, "src")
    r = run(["rsync", "-a", "--delete", "--exclude", ".git", REPO + "/", src + "/"])
    if r.returncode != 0:
        raise RuntimeError("rsync failed: " + r.stdout)
    shutil.copytree(os.path.join(VERIF, "shim", "verifapi"), os.path.join(src, "verifapi"))
    shutil.copy(os.path.join(VERIF, "shim", "zz_verif_export.go"), os.path.join(src, "internal", "sbi", "zz_verif_export.go"))
    har = os.path.join(work, "harness")
    shutil.copytree(os.path.join(VERIF, "harness"), har)
    # go.sum: the product's own + what the harness adds (rapid), committed in /verif/harness/go.sum.extra
    with open(os.path.join(har, "go.sum"), "w") as out:
        out.write(open(os.path.join(REPO, "go.sum")).read())
        extra = os.path.join(VERIF, "harness", "go.sum.extra")
        if os.path.exists(extra):
            out.write(open(extra).read())
    gen_registry(src, har)
    patch_diameter(work, src, har)
    for d in ("out", "bin", "tmp"):
        os.makedirs(os.path.join(work, d))
    return src, har


def patch_diameter(work, src, har):
    """The Diameter library the tree under test requires, copied from the module cache with one hook: the harness may
    hold a message between the moment a connection's reader has read it and the moment it is dispatched to the
    handler (engine fault, C19: the schedule between reader and requester is owned by the harness).  Without a hook
    installed the copy behaves as the original."""
    import re
    m = re.search(r"^\s*github.com/fiorix/go-diameter\s+(\S+)", open(os.path.join(src, "go.mod")).read(), re.M)
    if not m:
        raise RuntimeError("the tree under test does not require github.com/fiorix/go-diameter")
    cache = run(["go", "env", "GOMODCACHE"]).stdout.strip().splitlines()[-1]
    orig = os.path.join(cache, "github.com", "fiorix", "go-diameter@" + m.group(1))
    if not os.path.isdir(orig):
        raise RuntimeError("module cache has no " + orig)
    dst = os.path.join(work, "godiameter")
    shutil.copytree(os.path.join(orig, "diam"), os.path.join(dst, "diam"))
    for root, dirs, files in os.walk(dst):
        os.chmod(root, 0o755)
        for fn in files:
            os.chmod(os.path.join(root, fn), 0o644)
    srv = os.path.join(dst, "diam", "server.go")
    text = open(srv).read()
    line = "\t\tserverHandler{c.server}.ServeDIAM(c.writer, m)\n"
    if text.count(line) != 1:
        raise RuntimeError("go-diameter's serve loop is not the one the hook was written for")
    text = text.replace(line, "\t\tif VerifBeforeDispatch != nil {\n\t\t\tVerifBeforeDispatch(c.writer, m)\n\t\t}\n" + line)
    open(srv, "w").write(text)
    with open(os.path.join(dst, "diam", "zz_verif_hook.go"), "w") as f:
        f.write("package diam\n\n// VerifBeforeDispatch, when set (before any connection exists), runs in a connection's reader task after a\n"
                "// message has been read and before it is handed to the handler.\nvar VerifBeforeDispatch func(Conn, *Message)\n")
    if not os.path.exists(os.path.join(dst, "go.mod")):
        open(os.path.join(dst, "go.mod"), "w").write("module github.com/fiorix/go-diameter\n")
    with open(os.path.join(har, "go.mod"), "a") as f:
        f.write("\nreplace github.com/fiorix/go-diameter => ../godiameter\n")


def gen_registry(src, har):
    """Type registry of the ber engine, generated from the tree under test (every exported type of cdr/cdrType)."""
    import re
    names = set()
    d = os.path.join(src, "cdr", "cdrType")
    if os.path.isdir(d):
        for fn in sorted(os.listdir(d)):
            if fn.endswith(".go") and not fn.endswith("_test.go"):
                for m in re.finditer(r"^type\s+([A-Z]\w*)\s", open(os.path.join(d, fn)).read(), re.M):
                    names.add(m.group(1))
    with open(os.path.join(har, "ber", "registry_gen.go"), "w") as f:
        f.write("// Code generated by the check driver from cdr/cdrType of the tree under test. DO NOT EDIT.\n")
        f.write("package ber\n\nimport (\n\t\"reflect\"\n\n\t\"github.com/free5gc/chf/cdr/cdrType\"\n)\n\n")
        f.write("var registryByName = map[string]reflect.Type{\n")
        for n in sorted(names):
            f.write("\t%s: reflect.TypeOf((*cdrType.%s)(nil)).Elem(),\n" % (json.dumps(n), n))
        f.write("}\n")


def build(work, har, engine, race):
    out = os.path.join(work, "bin", engine + (".race" if race else "") + ".test")
    cmd = ["go", "test", "-c", "-tags", "verif", "-vet=off", "-o", out]
    if race:
        cmd.append("-race")
    cmd.append("./" + engine)
    t0 = time.time()
    r = run(cmd, cwd=har, timeout=1500)
    if r.returncode != 0 or not os.path.exists(out):
        raise RuntimeError("build of engine %s failed:\n%s" % (engine, r.stdout[-6000:]))
    log("built %s in %.1fs" % (os.path.basename(out), time.time() - t0))
    return out


def known_entries(pid):
    res = []
    p = os.path.join(VERIF, "KNOWN_FINDINGS.txt")
    if not os.path.exists(p):
        return res
    for line in open(p):
        line = line.strip()
        if not line.startswith("known:"):
            continue
        f = dict(w.split("=", 1) for w in line.split() if "=" in w)
        if f.get("property") == pid:
            what = line.split(" -- ", 1)[1] if " -- " in line else line
            res.append({"sig": f.get("sig"), "replay": f.get("replay"), "unit": f.get("unit"), "what": what})
    return res


def unit_cmd(binary, unit, tier, seed, shard, replay=None):
    checks = unit.get(tier + "_checks", unit.get("quick_checks", 100))
    cmd = [binary, "-test.run", "^" + unit["test"] + "$", "-test.timeout", "%ds" % unit.get(tier + "_timeout", 3000),
           "-rapid.nofailfile", "-rapid.checks=%d" % checks, "-rapid.shrinktime=%s" % unit.get("shrinktime", "20s")]
    rs = (seed * 1000003 + shard * 7919 + 1) & 0x7fffffffffffffff
    if rs == 0:
        rs = 1
    cmd.append("-rapid.seed=%d" % rs)
    if unit.get("steps"):
        cmd.append("-rapid.steps=%d" % unit["steps"])
    return cmd, rs


def run_units(pid, spec, tier, seed, work, bins, replay=None, only_unit=None):
    """Run all units x shards in parallel (bounded); returns list of (unit, shard, rc, output, summary)."""
    jobs = []
    for unit in spec["units"]:
        if only_unit and unit["name"] != only_unit:
            continue
        if replay is None and tier not in unit.get("tiers", ["quick", "thorough"]):
            continue
        shards = 1 if replay else unit.get(tier + "_shards", 1)
        for s in range(shards):
            jobs.append((unit, s))
    maxpar = int(os.environ.get("VERIF_PAR", "16"))
    results = []
    running = []
    outdir = os.path.join(work, "out")

    def start(unit, s):
        binary = bins[(unit["engine"], bool(unit.get("race")))]
        cmd, rs = unit_cmd(binary, unit, tier, seed, s)
        if unit.get("fuzz"):
            # native coverage-guided fuzzing (cannot be pinned by a seed: the saved crasher is the reproducible unit)
            pkgdir = os.path.join(work, "harness", unit["engine"])
            if replay:
                fz = json.load(open(replay))["case"]
                d = os.path.join(pkgdir, "testdata", "fuzz", unit["fuzz"])
                os.makedirs(d, exist_ok=True)
                open(os.path.join(d, "replayinput"), "w").write(fz["corpus_file"])
                cmd = ["go", "test", "-tags", "verif", "-vet=off", "-count=1", "-run", "^%s$/replayinput" % unit["fuzz"], "./" + unit["engine"]]
            else:
                cmd = ["go", "test", "-tags", "verif", "-vet=off", "-run", "^$", "-fuzz", "^%s$" % unit["fuzz"], "-fuzztime", unit.get(tier + "_fuzztime", "60s"),
                       "-parallel", "16", "./" + unit["engine"]]
        env = {"VERIF_OUT": outdir, "VERIF_TIER": tier, "VERIF_SHARD": str(s), "VERIF_WORK": os.path.join(work, "tmp"),
               "VERIF_KNOWN": os.path.join(VERIF, "KNOWN_FINDINGS.txt"), "VERIF_SEED_EFF": str(rs),
               "VERIF_SRC": os.path.join(work, "src"), "VERIF_CORPUS": os.path.join(VERIF, "corpus"),
               "VERIF_NSHARDS": str(unit.get(tier + "_shards", 1)), "VERIF_BIN": binary,
               "GORACE": "halt_on_error=0 exitcode=0 log_path=" + os.path.join(work, "tmp", "race.%s.%d" % (unit["name"], s))}
        if replay:
            env["VERIF_REPLAY"] = replay
        for k, v in unit.get("env", {}).items():
            env[k] = str(v)
        e = dict(os.environ)
        e.update(GOENV)
        e.update(env)
        logf = open(os.path.join(outdir, "%s.%s.%d.log" % (pid, unit["name"], s)), "w")
        pre = "ulimit -n 60000 2>/dev/null; ulimit -v %d; exec " % unit.get("vmem_kb", 24 * 1024 * 1024)
        cwd = os.path.join(work, "harness") if unit.get("fuzz") else os.path.join(work, "tmp")
        p = subprocess.Popen(["bash", "-c", pre + '"$@"', "x"] + cmd, cwd=cwd, env=e,
                             stdout=logf, stderr=subprocess.STDOUT)
        return (unit, s, p, logf, time.time())

    pending = list(jobs)
    while pending or running:
        while pending and len(running) < maxpar:
            unit, s = pending.pop(0)
            running.append(start(unit, s))
        time.sleep(0.05)
        for item in list(running):
            unit, s, p, logf, t0 = item
            rc = p.poll()
            limit = unit.get(tier + "_timeout", 3000) + 120
            if rc is None and time.time() - t0 > limit:
                p.kill()
                rc = -9
            if rc is not None:
                running.remove(item)
                logf.close()
                out = open(logf.name, errors="replace").read()
                sp = os.path.join(outdir, "%s.%s.%d.json" % (pid, unit["name"], s))
                summ = None
                if unit.get("fuzz"):
                    summ = fuzz_summary(pid, unit, s, rc, out, work)
                elif os.path.exists(sp):
                    try:
                        summ = json.load(open(sp))
                    except Exception:
                        summ = None
                results.append({"unit": unit, "shard": s, "rc": rc, "out": out, "summary": summ,
                                "wall": time.time() - t0})
    return results


def fuzz_summary(pid, unit, shard, rc, out, work):
    """Summary of a native fuzzing campaign, from go test's output and the crasher file it saved."""
    import re
    execs = 0
    for m in re.finditer(r"execs: (\d+)", out):
        execs = max(execs, int(m.group(1)))
    new_interesting = 0
    for m in re.finditer(r"new interesting: (\d+)", out):
        new_interesting = max(new_interesting, int(m.group(1)))
    summ = {"property": pid, "unit": unit["name"], "shard": str(shard), "seed": 0, "evaluations": max(execs, 1), "skipped": 0, "nontrivial": 0,
            "labels": {"fuzz-executions": execs, "fuzz-new-coverage-inputs": new_interesting}, "known_hits": {}, "excluded": {}, "samples": [],
            "exhaustive": False, "completed": rc == 0 or "PASS" in out, "extra": {"fuzz_execs": execs, "fuzz_new_interesting": new_interesting}, "notes": []}
    m = re.search(r"Failing input written to (\S+)", out)
    failed = "--- FAIL" in out or m
    if failed:
        sig = "fuzz-failure"
        ms = re.search(r"VIOLATION sig=(\S+)", out)
        if ms:
            sig = ms.group(1)
        content = ""
        if m:
            pth = os.path.join(work, "harness", unit["engine"], m.group(1))
            if os.path.exists(pth):
                content = open(pth).read()
        msg = out[out.find("--- FAIL"):][:3000] if "--- FAIL" in out else out[-3000:]
        summ["failure"] = {"sig": sig, "msg": msg, "case": {"corpus_file": content, "fuzz_target": unit["fuzz"]}}
        summ["completed"] = True
    elif rc != 0:
        summ["completed"] = False
    return summ


def merge_hashes(pid, work):
    seen = set()
    outdir = os.path.join(work, "out")
    for fn in os.listdir(outdir):
        if fn.startswith(pid + ".") and fn.endswith(".hashes"):
            b = open(os.path.join(outdir, fn), "rb").read()
            for i in range(0, len(b) - 7, 8):
                seen.add((fn.split(".")[1], struct.unpack_from("<Q", b, i)[0]))
    return len(seen)


def save_replay(pid, unit_name, fail, kind="replays"):
    d = os.path.join(OUTROOT, kind, pid)
    os.makedirs(d, exist_ok=True)
    body = {"property": pid, "unit": unit_name, "sig": fail["sig"], "msg": fail["msg"][:4000], "case": fail["case"]}
    hsh = hashlib.sha1(json.dumps(body["case"], sort_keys=True).encode()).hexdigest()[:12]
    path = os.path.join(d, "%s-%s.json" % (unit_name, hsh))
    json.dump(body, open(path, "w"), indent=1)
    return path


def write_evidence(pid, spec, tier, seed, results, work, wall, violations, known_lines, inconclusive):
    ev = 0
    labels, known_hits, excluded, samples, notes, extra = {}, {}, {}, [], [], {}
    exhaustive = True
    units = {}
    for r in results:
        s = r["summary"]
        if not s:
            exhaustive = False
            continue
        ev += s["evaluations"]
        for k, v in s["labels"].items():
            labels[k] = labels.get(k, 0) + v
        for k, v in s["known_hits"].items():
            known_hits[k] = known_hits.get(k, 0) + v
        for k, v in s["excluded"].items():
            excluded[k] = excluded.get(k, 0) + v
        for smp in (s["samples"] or []):
            if len(samples) < 6:
                samples.append({"unit": s["unit"], "case": smp})
        notes += [n for n in (s.get("notes") or []) if len(notes) < 20]
        for k, v in (s.get("extra") or {}).items():
            extra[s["unit"] + "." + k] = v
        if not s.get("exhaustive"):
            exhaustive = False
        u = units.setdefault(s["unit"], {"evaluations": 0, "shards": 0, "skipped": 0})
        u["evaluations"] += s["evaluations"]
        u["skipped"] += s["skipped"]
        u["shards"] += 1
        if s.get("failure") and len(samples) < 8:
            samples.append({"unit": s["unit"], "failing_case": s["failure"]["case"], "sig": s["failure"]["sig"]})
    distinct = merge_hashes(pid, work) + sum((r["summary"] or {}).get("distinct_by_construction", 0) for r in results)
    doc = {
        "property_id": pid, "tier": tier, "seed": seed, "level": "exploration",
        "coverage": {
            "evaluations": ev, "distinct_nontrivial": distinct, "rule": spec["rule"],
            "samples": samples if samples else ["(no case summary was produced)"],
            "class_histogram": labels, "known_finding_hits": known_hits, "excluded_by_construction": excluded,
            "units": units, "exhaustive": bool(spec.get("exhaustive")) and not inconclusive and not violations,
            "technique": spec["technique"], "measurements": extra, "notes": notes,
            "known_findings_reproduced": known_lines,
        },
        "assumptions": spec.get("assumptions", []),
        "wall_s": round(wall, 2), "violations": violations,
    }
    os.makedirs(os.path.join(OUTROOT, "evidence"), exist_ok=True)
    tmp = os.path.join(OUTROOT, "evidence", pid + ".json.tmp")
    json.dump(doc, open(tmp, "w"), indent=1)
    os.replace(tmp, os.path.join(OUTROOT, "evidence", pid + ".json"))
    return doc


def setup():
    """Offline set-up after a restore: toolchain + module cache check, warm the build cache, oracle self-tests."""
    work = os.path.join(WORKROOT, "setup")
    try:
        r = run(["go", "version"])
        log(r.stdout.strip())
        st = run(["git", "-C", REPO, "status", "--porcelain"])
        if st.stdout.strip():
            log("note: /repo working tree has local modifications:\n" + st.stdout)
        src, har = prepare(work)
        pairs = sorted({(u["engine"], bool(u.get("race"))) for p in PROPS.values() for u in p["units"]})
        for eng, race in pairs:
            b = build(work, har, eng, race)
            if not race:
                rr = run([b, "-test.run", "^TestSelf", "-test.timeout", "300s"], cwd=os.path.join(work, "tmp"),
                         env={"VERIF_WORK": os.path.join(work, "tmp"), "VERIF_SRC": src}, timeout=400)
                if rr.returncode != 0:
                    log("oracle self-tests of engine %s failed:\n%s" % (eng, rr.stdout[-3000:]))
                    return 2
        log("setup ok")
        return 0
    except Exception as e:
        log("setup failed:", e)
        return 2
    finally:
        shutil.rmtree(work, ignore_errors=True)


def main():
    args = sys.argv[1:]
    if args and args[0] == "--setup":
        return setup()
    if len(args) < 1:
        print("usage: check <ID> <quick|thorough> [--replay file]", file=sys.stderr)
        return 2
    pid = args[0]
    tier = os.environ.get("VERIF_TIER", "quick")
    replay = None
    rest = args[1:]
    while rest:
        a = rest.pop(0)
        if a in ("quick", "thorough"):
            tier = a
        elif a == "--replay":
            replay = os.path.abspath(rest.pop(0))
    if pid not in PROPS:
        print("unknown property", pid, file=sys.stderr)
        return 2
    spec = PROPS[pid]
    try:
        seed = int(os.environ.get("VERIF_SEED", "1"))
    except ValueError:
        seed = 1
    t0 = time.time()
    work = os.path.join(WORKROOT, "%s-%s%s" % (pid, tier, "-replay" if replay else ""))
    rc = 2
    try:
        src, har = prepare(work)
        bins = {}
        for unit in spec["units"]:
            key = (unit["engine"], bool(unit.get("race")))
            if key not in bins:
                bins[key] = build(work, har, unit["engine"], key[1])
        if replay:
            unit_name = None
            try:
                unit_name = json.load(open(replay)).get("unit")
            except Exception:
                pass
            results = run_units(pid, spec, tier, seed, work, bins, replay=replay, only_unit=unit_name)
            bad = False
            for r in results:
                s = r["summary"]
                if s and s.get("failure"):
                    print("VIOLATION property=%s replay=%s sig=%s" % (pid, replay, s["failure"]["sig"]))
                    print(s["failure"]["msg"][:3000])
                    bad = True
                elif r["rc"] != 0 or not s:
                    print(r["out"][-3000:], file=sys.stderr)
                    return 2
            if not bad:
                print("replay passes: property=%s %s" % (pid, replay))
            return 1 if bad else 0

        # 1. listed known findings: does each still reproduce?
        known_lines = []
        regress_run = 0
        for k in known_entries(pid):
            if not k["replay"]:
                continue
            rp = os.path.join(VERIF, k["replay"])
            rr = run_units(pid, spec, tier, seed, work, bins, replay=rp, only_unit=k["unit"])
            for r in rr:
                s = r["summary"]
                if s and s.get("failure") and s["failure"]["sig"] == k["sig"]:
                    line = "KNOWN-FINDING: property=%s %s" % (pid, k["what"])
                    print(line, flush=True)
                    known_lines.append(line)
                elif s and s.get("failure"):
                    # the listed case now fails differently: that is a new violation
                    path = save_replay(pid, s["unit"], s["failure"])
                    print("VIOLATION property=%s replay=%s sig=%s" % (pid, path, s["failure"]["sig"]), flush=True)
                    print(s["failure"]["msg"][:2000])
                    write_evidence(pid, spec, tier, seed, rr, work, time.time() - t0, 1, known_lines, False)
                    return 1
            for fn in os.listdir(os.path.join(work, "out")):
                os.remove(os.path.join(work, "out", fn))

        # 1b. regression replays of repaired defects (must pass; nothing is suppressed for them)
        rdir = os.path.join(VERIF, "findings", pid)
        if os.path.isdir(rdir):
            for fn in sorted(os.listdir(rdir)):
                if not fn.startswith("fixed-") or not fn.endswith(".json"):
                    continue
                rp = os.path.join(rdir, fn)
                uname = json.load(open(rp)).get("unit")
                rr = run_units(pid, spec, tier, seed, work, bins, replay=rp, only_unit=uname)
                for r in rr:
                    s = r["summary"]
                    if s and s.get("failure") and not s["failure"]["sig"].startswith("HARNESS"):
                        print("VIOLATION property=%s replay=%s sig=%s" % (pid, rp, s["failure"]["sig"]), flush=True)
                        print(s["failure"]["msg"][:2000])
                        write_evidence(pid, spec, tier, seed, rr, work, time.time() - t0, 1, known_lines, False)
                        return 1
                    if not s or r["rc"] != 0:
                        log("regression replay %s gave no verdict:\n%s" % (fn, r["out"][-1500:]))
                        return 2
                regress_run += 1
            for fn in os.listdir(os.path.join(work, "out")):
                os.remove(os.path.join(work, "out", fn))

        # 2. the generated search
        results = run_units(pid, spec, tier, seed, work, bins)
        violations = []
        inconclusive = []
        for r in results:
            s = r["summary"]
            u = r["unit"]["name"]
            if s and s.get("failure"):
                if s["failure"]["sig"].startswith("HARNESS"):
                    inconclusive.append("%s/%d: %s" % (u, r["shard"], s["failure"]["msg"][:1500]))
                else:
                    violations.append((u, s["failure"]))
            elif r["rc"] != 0 or not s or not s.get("completed"):
                inconclusive.append("%s/%d: rc=%s, no verdict\n%s" % (u, r["shard"], r["rc"], r["out"][-2500:]))
        # essential classes
        tot = {}
        for r in results:
            if r["summary"]:
                for k, v in r["summary"]["labels"].items():
                    tot[k] = tot.get(k, 0) + v
        for cls in spec.get("essential_" + tier, spec.get("essential", [])):
            if not any(tot.get(c, 0) > 0 for c in cls.split("|")):
                inconclusive.append("essential class %r was never generated" % cls)
        seen = set()
        vio_lines = 0
        for u, f in violations:
            if f["sig"] in seen:
                continue
            seen.add(f["sig"])
            path = save_replay(pid, u, f)
            print("VIOLATION property=%s replay=%s sig=%s" % (pid, path, f["sig"]), flush=True)
            print(f["msg"][:2500])
            vio_lines += 1
        doc = write_evidence(pid, spec, tier, seed, results, work, time.time() - t0, vio_lines, known_lines,
                             bool(inconclusive))
        if vio_lines:
            rc = 1
        elif inconclusive:
            for m in inconclusive[:5]:
                log("INCONCLUSIVE:", m)
            rc = 2
        else:
            c = doc["coverage"]
            log("%s %s: held on %d cases (%d distinct non-trivial), %.1fs" % (pid, tier, c["evaluations"],
                                                                              c["distinct_nontrivial"], time.time() - t0))
            rc = 0
    except subprocess.TimeoutExpired as e:
        log("timeout:", e)
        rc = 2
    except Exception as e:  # build failure etc.
        log("error:", e)
        rc = 2
    finally:
        if not os.environ.get("VERIF_KEEP"):
            shutil.rmtree(work, ignore_errors=True)
    return rc


if __name__ == "__main__":
    sys.exit(main())
